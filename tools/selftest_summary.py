""" Collects the logs of tools/selftest_mutants.sh, tools/seeded_all.sh and sim.selftest.determinism into
    /verif/selftest_results.json (committed; embedded into every evidence file as coverage.selftests).
    usage: python tools/selftest_summary.py <mutants log> <determinism log> [<seeded_all log>] """
import glob, json, re, subprocess, sys
mutants = {}
for line in open(sys.argv[1]):
    m = re.match(r"MUTANT (\S+)\.patch property=(\S+) exit=(\d+)", line)
    if m:
        mutants.setdefault(m.group(2), {})[m.group(1)] = "caught" if m.group(3) == "1" else f"exit {m.group(3)}"
determinism = {}
for line in open(sys.argv[2]):
    m = re.match(r"determinism (\S+): (\d+) runs x 3 executions .*: (\d+) diverging", line)
    if m:
        determinism.setdefault(m.group(1), []).append({"runs": int(m.group(2)), "executions": 3, "diverging": int(m.group(3))})
seeded = {}
for path in sorted(glob.glob("/verif/seeded/*/meta.json")):
    meta = json.load(open(path))
    seeded.setdefault(meta["property"], {})[meta["id"]] = "caught" if meta["check"]["caught"] else "not caught"
if len(sys.argv) > 3:
    # the latest re-run of every seeded change (tools/seeded_all.sh) overrides what was recorded when it was stored
    for line in open(sys.argv[3]):
        m = re.match(r"(\S+): MUTANT patch\.diff property=(\S+) exit=(\d+)", line)
        if m:
            seeded.setdefault(m.group(2), {})[m.group(1)] = "caught" if m.group(3) == "1" else "not caught"
out = {"repo_commit": subprocess.run(["git", "-C", "/repo", "log", "--format=%h", "-1"], capture_output=True, text=True).stdout.strip(),
       "sensitivity_mutants": mutants, "seeded_changes": seeded, "determinism": determinism,
       "note": "produced by tools/selftest_mutants.sh, tools/seeded_verify.sh and python -m sim.selftest.determinism; "
               "determinism = same (property, VERIF_SEED, run) executed in 3 processes at 16/3/7 workers, the third under "
               "PYTHONHASHSEED=12345, trace digests compared"}
json.dump(out, open("/verif/selftest_results.json", "w"), indent=1)
print({k: len(v) for k, v in mutants.items()}, {k: len(v) for k, v in seeded.items()}, determinism)
