#!/bin/sh
# usage: tools/mutant_run.sh <patch file> <property> [extra ./check args]
# Applies the patch to a scratch worktree of /repo HEAD (outside /repo and /verif), runs the check
# against it (PYTHONPATH ahead of the editable install), removes the worktree. Prints the check's exit code.
patch="$(realpath "$1")"; prop="$2"; shift 2
dir="$(mktemp -d /tmp/mutant.XXXXXX)"; rmdir "$dir"
git -C /repo worktree add -q --detach "$dir" HEAD || exit 3
( cd "$dir" && git apply "$patch" ) || { git -C /repo worktree remove --force "$dir"; echo "PATCH-FAILED $patch"; exit 3; }
cd /verif
PYTHONPATH="$dir" VERIF_REPO="$dir" ./check "$prop" --no-evidence "$@" > "$dir.log" 2>&1
code=$?
grep -E "VIOLATION|KNOWN-FINDING|HARNESS|^\[|violation clause" "$dir.log" | head -12
git -C /repo worktree remove --force "$dir"; rm -f "$dir.log"
echo "MUTANT $(basename "$patch") property=$prop exit=$code"
exit 0
