#!/bin/sh
# usage: tools/selftest_mutants.sh [property ...]   runs every mutant patch of each property against its check
cd /verif || exit 2
props="$*"; [ -z "$props" ] && props="$(ls sim/selftest/mutants)"
for prop in $props; do
  for patch in sim/selftest/mutants/$prop/*.patch; do
    [ -f "$patch" ] || continue
    case $prop in
      C17) args="--set max_reports=1 --set shrink_s=20" ;;
      C11) args="--set max_reports=1 --set shrink_s=20" ;;
      C20) args="--set max_reports=1 --set shrink_s=20" ;;
      *) args="--runs 6000 --set max_reports=1 --set shrink_s=10" ;;
    esac
    tools/mutant_run.sh "$patch" "$prop" $args 2>&1 | grep -E "^MUTANT|PATCH-FAILED"
  done
done
