#!/bin/sh
# usage: tools/seeded_verify.sh <source dir with patch.diff + demo> <seeded id> <property> [check args]
# 1. confirms in a scratch worktree that the patch applies, the demo passes without and fails with it, and the
#    pinned baseline is unchanged;  2. stores it under /verif/seeded/<id>/;  3. runs the property's check against
#    it (git -C /repo apply; check; git -C /repo checkout -- .) and records the outcome in meta.json
src="$(realpath "$1")"; id="$2"; prop="$3"; shift 3
demo="$(ls "$src" | grep -E '^(demo|test_demo).*\.py$' | head -1)"
[ -f "$src/patch.diff" ] && [ -n "$demo" ] || { echo "missing patch.diff or demo in $src"; exit 2; }
wt="/tmp/seedverify_$id"
git -C /repo worktree add -q --detach "$wt" HEAD || exit 3
run_demo() { ( cd "$wt" && PYTHONPATH="$wt" timeout 600 /venv/bin/python "$src/$demo" > "$wt.demo.log" 2>&1 ); echo $?; }
clean_code=$(run_demo)
( cd "$wt" && git apply "$src/patch.diff" ) || { echo "PATCH DOES NOT APPLY"; git -C /repo worktree remove --force "$wt"; exit 3; }
patched_code=$(run_demo)
tail -3 "$wt.demo.log"
base_out=$(cd /verif && /venv/bin/python tools/baseline_check.py --repo "$wt" -n 10 | head -3)
git -C /repo worktree remove --force "$wt"; rm -f "$wt.demo.log"
echo "demo exit without patch: $clean_code, with patch: $patched_code; baseline: $base_out"
mkdir -p "/verif/seeded/$id"
cp "$src/patch.diff" "$src/$demo" "/verif/seeded/$id/"
[ -f "$src/NOTES.md" ] && cp "$src/NOTES.md" "/verif/seeded/$id/"
# run the check against it
cd /verif
git -C /repo diff --quiet || { echo "/repo is dirty, refusing"; exit 4; }
trap 'git -C /repo checkout -- . ; git -C /repo clean -fdq -- antismash' EXIT INT TERM
git -C /repo apply "/verif/seeded/$id/patch.diff" || exit 3
./check "$prop" --no-evidence "$@" > "/tmp/seeded_$id.log" 2>&1
code=$?
git -C /repo checkout -- .
trap - EXIT INT TERM
grep -E "^violation clause|^VIOLATION|HARNESS" "/tmp/seeded_$id.log" | head -6
replay=$(grep -m1 "^VIOLATION" "/tmp/seeded_$id.log" | sed 's/.*replay=//')
clause=$(grep -m1 "^violation clause" "/tmp/seeded_$id.log" | sed 's/violation clause=\([^ ]*\).*/\1/')
detail=$(grep -m1 -A1 "^violation clause" "/tmp/seeded_$id.log" | tail -1 | cut -c1-400)
/venv/bin/python - "$id" "$prop" "$clean_code" "$patched_code" "$base_out" "$code" "$clause" "$detail" "$*" <<'PY'
import json, sys, os
ident, prop, clean, patched, base, code, clause, detail, args = sys.argv[1:10]
path = f"/verif/seeded/{ident}/meta.json"
meta = json.load(open(path)) if os.path.exists(path) else {}
meta.update({"id": ident, "property": prop,
             "confirmed": {"demo_exit_without_patch": int(clean), "demo_exit_with_patch": int(patched),
                           "pinned_baseline_with_patch": base.strip(),
                           "how": "tools/seeded_verify.sh: scratch worktree of /repo HEAD outside /repo and /verif, removed afterwards"},
             "check": {"command": f"./check {prop} --no-evidence {args}".strip(), "exit": int(code),
                       "caught": int(code) == 1, "clause": clause, "detail": detail}})
meta.setdefault("needs_to_manifest", "see NOTES.md")
json.dump(meta, open(path, "w"), indent=1)
print("SEEDED", ident, "caught" if int(code) == 1 else f"NOT CAUGHT (exit {code})")
PY
rm -f "/tmp/seeded_$id.log"
