""" Runs the pinned baseline command and compares against BASELINE.json's stable_pass list.
    usage: /venv/bin/python tools/baseline_check.py [-n N]   (exit 0 iff every stable_pass test passes) """
import json, subprocess, sys, tempfile, os
import xml.etree.ElementTree as ET
base = json.load(open("/root/.vp/BASELINE.json"))
extra = sys.argv[1:]
repo = "/repo"
if "--repo" in extra:
    at = extra.index("--repo")
    repo = extra[at + 1]
    del extra[at:at + 2]
with tempfile.TemporaryDirectory() as tmp:
    xml = os.path.join(tmp, "r.xml")
    cmd = ["/venv/bin/python", "-m", "pytest", "-ra", "-q", "-p", "no:cacheprovider", "--timeout=900",
           "--continue-on-collection-errors", f"--junitxml={xml}"] + extra
    env = {k: v for k, v in os.environ.items() if k != "ANTISMASH_VERIF"}
    proc = subprocess.run(cmd, cwd=repo, capture_output=True, text=True, env=env)
    passed = set()
    for case in ET.parse(xml).getroot().iter("testcase"):
        if not any(child.tag in ("failure", "error", "skipped") for child in case):
            passed.add(f"{case.get('classname')}::{case.get('name')}")
missing = sorted(set(base["stable_pass"]) - passed)
print(f"stable_pass={len(base['stable_pass'])} passed_now={len(passed)} missing={len(missing)}")
for name in missing[:40]:
    print("  NOT PASSING:", name)
sys.exit(1 if missing else 0)
