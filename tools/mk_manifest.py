import json, jsonschema
m=json.load(open('/verif/MANIFEST.json'))
def check(pid, engine, level, text, note, technique, ref):
    return {"property_id":pid,"quick_cmd":f"./check {pid} --tier quick","thorough_cmd":f"./check {pid} --tier thorough",
            "evidence_file":f"/verif/evidence/{pid}.json","replay_cmd_template":f"./check {pid} --replay {{path}}",
            "engine":engine,"level_claimed":{"category":level,"text":text,"design_ref":ref},"level_note":note,"technique":technique}
checks={c["property_id"]:c for c in m["checks"]}
import sys
spec=json.load(open('/verif/tools/manifest_checks.json'))
for pid,c in spec["checks"].items():
    checks[pid]=check(pid,c["engine"],c["level"],c["text"],c["note"],c["technique"],c["ref"])
m["checks"]=[checks[k] for k in sorted(checks)]
m["engines"]=spec["engines"]
claimed=set(checks)
m["not_applicable"]=[n for n in m["not_applicable"] if n["property_id"] not in claimed]
m["hooks"]["baseline_off_cmd"]="cd /repo && env -u ANTISMASH_VERIF /venv/bin/python -m pytest -ra -q -p no:cacheprovider --timeout=900 --continue-on-collection-errors"
jsonschema.validate(m,json.load(open('/root/.vp/MANIFEST.schema.json')))
json.dump(m,open('/verif/MANIFEST.json','w'),indent=1)
print("manifest ok:",sorted(claimed))
