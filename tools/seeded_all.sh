#!/bin/sh
# re-runs every seeded change against its property's quick check
cd /verif || exit 2
for dir in seeded/*/; do
  id="$(basename "$dir")"; prop="$(echo "$id" | cut -d- -f1)"
  tools/seeded_verify.sh "$dir" "$id" "$prop" 2>&1 | grep -E "^SEEDED|PATCH DOES NOT APPLY"
done
