#!/bin/sh
# Re-runs every seeded change against its property's quick check WITHOUT touching /repo's working tree:
# each patch is applied to a scratch worktree of /repo HEAD (tools/mutant_run.sh). For the full confirmation
# of one change (demo with/without, pinned baseline, apply-to-/repo run) use tools/seeded_verify.sh.
cd /verif || exit 2
for dir in seeded/*/; do
  id="$(basename "$dir")"; prop="$(echo "$id" | cut -d- -f1)"
  case $prop in
    C17) args="--set max_reports=1 --set shrink_s=20" ;;
    C11|C20) args="--set max_reports=1 --set shrink_s=20" ;;
    *) args="--set max_reports=1 --set shrink_s=10" ;;
  esac
  out="$(tools/mutant_run.sh "$dir/patch.diff" "$prop" $args 2>&1 | grep -E "^MUTANT|PATCH-FAILED")"
  echo "$id: $out"
done
