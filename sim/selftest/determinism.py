""" Determinism self-test: the same (property, VERIF_SEED, run index) must give the same
    trace digest in different processes and with different worker counts.
    usage: python -m sim.selftest.determinism Cxx [--runs N] [--seed S]
"""
import argparse
import json
import os
import subprocess
import sys


def collect(prop, seed, runs, jobs, extra_env=None, sets=()):
    code = (
        "import json,sys,logging; logging.disable(logging.CRITICAL)\n"
        "from sim import engines; from sim.core import runner\n"
        f"e=engines.for_property('{prop}'); cfg=e.tier_config('{prop}','quick'); cfg['runs']={runs}; cfg['deadline_s']=3000\n"
        + "".join(f"cfg[{k!r}]={v!r}\n" for k, v in sets) +
        f"e.prepare('{prop}',cfg); b=(e.custom_batch('{prop}',{seed},cfg,{jobs}) if hasattr(e,'custom_batch') else runner.run_batch(e,'{prop}',{seed},cfg,{jobs}))\n"
        "json.dump([[r['i'],r['digest'],r['sig']] for r in b['runs']],sys.stdout)\n")
    import shutil
    import tempfile
    scratch = tempfile.mkdtemp(prefix="verif_scratch_")
    env = dict(os.environ, PYTHONHASHSEED="0", PYTHONDONTWRITEBYTECODE="1", VERIF_SCRATCH=scratch)
    env.update(extra_env or {})
    out = subprocess.run([sys.executable, "-c", code], cwd=os.path.dirname(os.path.dirname(os.path.dirname(os.path.abspath(__file__)))),
                         env=env, capture_output=True, text=True, check=False)
    shutil.rmtree(scratch, ignore_errors=True)
    if out.returncode != 0:
        print(out.stderr[-3000:])
        raise SystemExit(2)
    return json.loads(out.stdout)


def main():
    parser = argparse.ArgumentParser()
    parser.add_argument("prop")
    parser.add_argument("--runs", type=int, default=400)
    parser.add_argument("--seed", type=int, default=1)
    parser.add_argument("--set", action="append", default=[])
    args = parser.parse_args()
    sets = [(item.split("=", 1)[0], json.loads(item.split("=", 1)[1])) for item in args.set]
    a = collect(args.prop, args.seed, args.runs, 16, sets=sets)
    b = collect(args.prop, args.seed, args.runs, 3, sets=sets)
    c = collect(args.prop, args.seed, args.runs, 7, {"PYTHONHASHSEED": "12345"}, sets=sets)
    bad = [x[0] for x, y, z in zip(a, b, c) if x != y or x != z]
    print(f"determinism {args.prop}: {len(a)} runs x 3 executions (jobs 16/3/7, last under PYTHONHASHSEED=12345): "
          f"{len(bad)} diverging runs {bad[:10]}")
    return 1 if bad else 0


if __name__ == "__main__":
    sys.exit(main())
