""" The identity-hash seam.

    secmet Feature classes define neither __eq__ nor __hash__, so they hash by
    memory address and every set / dict of features iterates in an order that
    depends on the memory layout of the process.  Equality stays identity, so
    *any* per-object constant is a legal hash.  The simulator replaces
    Feature.__hash__ by a bijective mix of (first-use serial, salt): the salt is
    chosen by the scheduler and spans the iteration orders a memory layout could
    produce, and nothing depends on ASLR any more, which makes each (input, salt)
    one exactly repeatable execution.
"""

from typing import Any, Dict, Tuple

_SERIALS: Dict[int, Tuple[int, Any]] = {}
_STATE = {"salt": 0, "installed": False, "next": 0}
_MASK = (1 << 61) - 1


def _hash(obj: Any) -> int:
    entry = _SERIALS.get(id(obj))
    if entry is None or entry[1] is not obj:
        _STATE["next"] += 1
        entry = (_STATE["next"], obj)   # keeps obj alive, so the id cannot be reused
        _SERIALS[id(obj)] = entry
    value = (entry[0] * 0x9E3779B97F4A7C15 + _STATE["salt"] * 0xC2B2AE3D27D4EB4F) & _MASK
    value ^= value >> 29
    value = (value * 0xBF58476D1CE4E5B9) & _MASK
    value ^= value >> 32
    return value


def install(salt: int = 0) -> None:
    from antismash.common.secmet.features.feature import Feature
    _STATE["salt"] = int(salt)
    if not _STATE["installed"]:
        Feature.__hash__ = _hash  # type: ignore
        _STATE["installed"] = True
    reset()


def reset() -> None:
    """ Forget all serials.  Only legal when no previously hashed object is still in use
        (start of a run): a live object's hash must never change """
    _SERIALS.clear()
    _STATE["next"] = 0


def restart_serials() -> None:
    """ Objects hashed from now on get serials 1, 2, ... again, objects already hashed keep
        theirs.  Two builds of the same spec, each preceded by this call, therefore give
        their objects pairwise equal hashes and so identical set iteration orders """
    _STATE["next"] = 0


def set_salt(salt: int) -> None:
    _STATE["salt"] = int(salt)
    reset()


def uninstall() -> None:
    from antismash.common.secmet.features.feature import Feature
    if _STATE["installed"]:
        del Feature.__hash__
        Feature.__hash__ = object.__hash__  # type: ignore
        _STATE["installed"] = False
    reset()
