""" SimPool: a single-process, discrete-event model of multiprocessing.pool.Pool.

    The scheduler (who runs next, how long each task takes, which worker dies or
    stalls) is driven entirely by a `Schedule` taken from the scenario, so that
    one scenario is one exactly repeatable execution.  Tasks and results cross a
    real pickle boundary, as they do between processes.

    Semantics follow CPython 3.12's Lib/multiprocessing/pool.py:
      * iterables without __len__ are listed; chunksize = ceil(n / (4 * workers))
      * a chunk aborts at its first exception; its result is (False, exception)
      * MapResult keeps the first failure *to arrive* and becomes ready only when
        every chunk has reported
      * a task that cannot be pickled fails that chunk with the pickling error
      * a result that cannot be pickled becomes MaybeEncodingError
      * a worker killed mid-chunk loses the chunk; a replacement worker joins
      * get(timeout) raises multiprocessing.TimeoutError when not ready in time
      * join() on a running pool raises ValueError
"""

import collections
import heapq
import itertools
import multiprocessing
import multiprocessing.pool
import pickle
from typing import Any, Callable, Dict, List, Optional, Tuple

RUN, CLOSE, TERMINATE = "RUN", "CLOSE", "TERMINATE"


class SimHang(BaseException):
    """ The real pool would block forever here (e.g. a lost chunk and no timeout) """


class Schedule:
    """ All scheduling decisions of one run, consumed batch by batch.

        batches: list of {"durations": [ms per task position], "kill_positions": [task positions whose
                          chunk's worker dies], "stall_positions": [task positions whose chunk stalls],
                          "stall_s": seconds, "default": ms}
        A pool takes the next batch description when it receives its first job.
    """

    def __init__(self, batches: Optional[List[Dict[str, Any]]] = None) -> None:
        self.batches = list(batches or [])
        self.cursor = 0
        self.now = 0.0           # simulated seconds, shared by all pools of the run
        self.seq = 0
        self.log: List[Any] = []  # event log (part of the run's trace)
        self.completion_orders: List[List[int]] = []
        self.fired: Dict[str, int] = collections.Counter()
        self.pools_created = 0
        self.in_worker = 0       # > 0 while a simulated worker is executing calls
        self.workers_seen: List[int] = []

    def next_batch(self) -> Dict[str, Any]:
        if self.cursor < len(self.batches):
            batch = self.batches[self.cursor]
        else:
            batch = {}
        self.cursor += 1
        return batch


CURRENT: Optional[Schedule] = None


def install(schedule: Schedule) -> None:
    global CURRENT  # pylint: disable=global-statement
    CURRENT = schedule


class _Shim:
    """ Stands in for the `multiprocessing` module inside the module under test """

    TimeoutError = multiprocessing.TimeoutError

    def __getattr__(self, name: str) -> Any:
        if name == "Pool":
            return SimPool
        if name == "get_context":
            return lambda *args, **kwargs: self
        return getattr(multiprocessing, name)


SHIM = _Shim()


class _Job:
    def __init__(self, pool: "SimPool") -> None:
        self.pool = pool
        self.id = next(pool.job_counter)
        pool.cache[self.id] = self

    def done(self) -> None:
        self.pool.cache.pop(self.id, None)


class SimAsyncResult(_Job):
    def __init__(self, pool: "SimPool", callback: Optional[Callable], error_callback: Optional[Callable]) -> None:
        super().__init__(pool)
        self._ready = False
        self._success = True
        self._value: Any = None
        self._callback = callback
        self._error_callback = error_callback

    def ready(self) -> bool:
        return self._ready

    def successful(self) -> bool:
        if not self._ready:
            raise ValueError(f"{self!r} not ready")
        return self._success

    def wait(self, timeout: Optional[float] = None) -> None:
        self.pool.run_until(self.ready, timeout)

    def get(self, timeout: Optional[float] = None) -> Any:
        self.wait(timeout)
        if not self._ready:
            self.pool.sched.fired["timeout"] += 1
            raise multiprocessing.TimeoutError
        if self._success:
            return self._value
        raise self._value

    def _finish(self) -> None:
        self._ready = True
        if self._success and self._callback:
            self._callback(self._value)
        if not self._success and self._error_callback:
            self._error_callback(self._value)
        self.done()


class SimApplyResult(SimAsyncResult):
    def _set(self, _i: int, outcome: Tuple[bool, Any]) -> None:
        self._success, self._value = outcome
        self._finish()


class SimMapResult(SimAsyncResult):
    def __init__(self, pool: "SimPool", chunksize: int, length: int, callback: Optional[Callable],
                 error_callback: Optional[Callable]) -> None:
        super().__init__(pool, callback, error_callback)
        self._value = [None] * length
        self._chunksize = chunksize
        if chunksize <= 0:
            self._number_left = 0
            self._ready = True
            self.done()
        else:
            self._number_left = length // chunksize + bool(length % chunksize)

    def _set(self, i: int, outcome: Tuple[bool, Any]) -> None:
        self._number_left -= 1
        success, result = outcome
        if success and self._success:
            self._value[i * self._chunksize:(i + 1) * self._chunksize] = result
        elif not success and self._success:
            self._success = False   # only the first failure to arrive is kept
            self._value = result
        if self._number_left == 0:
            self._finish()


class SimIMapIterator(_Job):
    ordered = True

    def __init__(self, pool: "SimPool") -> None:
        super().__init__(pool)
        self._items: collections.deque = collections.deque()
        self._index = 0
        self._length: Optional[int] = None
        self._unsorted: Dict[int, Any] = {}

    def __iter__(self) -> "SimIMapIterator":
        return self

    def next(self, timeout: Optional[float] = None) -> Any:
        if not self._items:
            if self._index == self._length:
                raise StopIteration
            self.pool.run_until(lambda: bool(self._items) or self._index == self._length, timeout)
            if not self._items:
                if self._index == self._length:
                    raise StopIteration
                self.pool.sched.fired["timeout"] += 1
                raise multiprocessing.TimeoutError
        success, value = self._items.popleft()
        if success:
            return value
        raise value

    __next__ = next

    def _set(self, i: int, obj: Tuple[bool, Any]) -> None:
        if not self.ordered:
            self._items.append(obj)
            self._index += 1
        elif self._index == i:
            self._items.append(obj)
            self._index += 1
            while self._index in self._unsorted:
                self._items.append(self._unsorted.pop(self._index))
                self._index += 1
        else:
            self._unsorted[i] = obj
        if self._index == self._length:
            self.done()

    def _set_length(self, length: int) -> None:
        self._length = length
        if self._index == self._length:
            self.done()


class SimIMapUnorderedIterator(SimIMapIterator):
    ordered = False


def _mapstar(func: Callable, chunk: Tuple) -> List[Any]:
    return list(map(func, chunk))


def _starmapstar(func: Callable, chunk: Tuple) -> List[Any]:
    return list(itertools.starmap(func, chunk))


def _apply(func: Callable, chunk: Tuple) -> Any:
    args, kwds = chunk
    return func(*args, **kwds)


_MODES = {"map": _mapstar, "starmap": _starmapstar, "apply": _apply}


class SimPool:
    """ See module docstring """

    def __init__(self, processes: Optional[int] = None, initializer: Optional[Callable] = None,
                 initargs: Tuple = (), maxtasksperchild: Optional[int] = None, context: Any = None) -> None:
        if CURRENT is None:
            raise RuntimeError("SimPool used without an installed Schedule")
        if processes is None:
            processes = multiprocessing.cpu_count()
        if processes < 1:
            raise ValueError("Number of processes must be at least 1")
        if initializer is not None and not callable(initializer):
            raise TypeError("initializer must be a callable")
        self.sched = CURRENT
        self.sched.pools_created += 1
        self.sched.workers_seen.append(int(processes))
        self._processes = int(processes)
        self._state = RUN
        self.job_counter = itertools.count()
        self.cache: Dict[int, Any] = {}
        self.queue: collections.deque = collections.deque()   # pending chunks, FIFO like the real inqueue
        self.events: List[Tuple[float, int, str, Any]] = []
        self.idle = list(range(self._processes))
        self.next_worker = self._processes
        self.batch: Optional[Dict[str, Any]] = None
        self.position = 0             # running task position within the batch (indexes durations)
        self.chunk_counter = 0
        self.completions: List[int] = []
        self.result_handler_dead = False
        if initializer is not None:
            for _ in range(self._processes):
                initializer(*initargs)

    # ------------------------------------------------------------ public API
    def _check_running(self) -> None:
        if self._state != RUN:
            raise ValueError("Pool not running")

    def apply(self, func: Callable, args: Tuple = (), kwds: Optional[Dict] = None) -> Any:
        return self.apply_async(func, args, kwds or {}).get()

    def apply_async(self, func: Callable, args: Tuple = (), kwds: Optional[Dict] = None,
                    callback: Optional[Callable] = None, error_callback: Optional[Callable] = None) -> SimApplyResult:
        self._check_running()
        result = SimApplyResult(self, callback, error_callback)
        self._submit(result, [("apply", func, (tuple(args), dict(kwds or {})), 1)])
        return result

    def map(self, func: Callable, iterable: Any, chunksize: Optional[int] = None) -> List[Any]:
        return self._map_async(func, iterable, "map", chunksize).get()

    def starmap(self, func: Callable, iterable: Any, chunksize: Optional[int] = None) -> List[Any]:
        return self._map_async(func, iterable, "starmap", chunksize).get()

    def map_async(self, func: Callable, iterable: Any, chunksize: Optional[int] = None,
                  callback: Optional[Callable] = None, error_callback: Optional[Callable] = None) -> SimMapResult:
        return self._map_async(func, iterable, "map", chunksize, callback, error_callback)

    def starmap_async(self, func: Callable, iterable: Any, chunksize: Optional[int] = None,
                      callback: Optional[Callable] = None, error_callback: Optional[Callable] = None) -> SimMapResult:
        return self._map_async(func, iterable, "starmap", chunksize, callback, error_callback)

    def _map_async(self, func: Callable, iterable: Any, mode: str, chunksize: Optional[int] = None,
                   callback: Optional[Callable] = None, error_callback: Optional[Callable] = None) -> SimMapResult:
        self._check_running()
        if not hasattr(iterable, "__len__"):
            iterable = list(iterable)
        if chunksize is None:
            chunksize, extra = divmod(len(iterable), self._processes * 4)
            if extra:
                chunksize += 1
        if len(iterable) == 0:
            chunksize = 0
        result = SimMapResult(self, chunksize, len(iterable), callback, error_callback)
        chunks = []
        if chunksize > 0:
            iterator = iter(iterable)
            while True:
                chunk = tuple(itertools.islice(iterator, chunksize))
                if not chunk:
                    break
                chunks.append((mode, func, chunk, len(chunk)))
        self._submit(result, chunks)
        return result

    def imap(self, func: Callable, iterable: Any, chunksize: int = 1) -> SimIMapIterator:
        return self._imap(func, iterable, chunksize, SimIMapIterator(self))

    def imap_unordered(self, func: Callable, iterable: Any, chunksize: int = 1) -> SimIMapIterator:
        return self._imap(func, iterable, chunksize, SimIMapUnorderedIterator(self))

    def _imap(self, func: Callable, iterable: Any, chunksize: int, result: SimIMapIterator) -> Any:
        self._check_running()
        if chunksize < 1:
            raise ValueError(f"Chunksize must be 1+, not {chunksize}")
        items = list(iterable)   # the real pool feeds lazily from a thread; the order of tasks is the same
        if chunksize == 1:
            chunks = [("map1", func, (item,), 1) for item in items]
            self._submit(result, chunks)
            result._set_length(len(items))
            return result
        chunks = []
        iterator = iter(items)
        while True:
            chunk = tuple(itertools.islice(iterator, chunksize))
            if not chunk:
                break
            chunks.append(("map", func, chunk, len(chunk)))
        self._submit(result, chunks)
        result._set_length(len(chunks))
        return (item for chunk in result for item in chunk)

    def close(self) -> None:
        if self._state == RUN:
            self._state = CLOSE

    def terminate(self) -> None:
        self._state = TERMINATE
        self.queue.clear()
        self.events.clear()
        self._record_completion_order()

    def join(self) -> None:
        if self._state == RUN:
            raise ValueError("Pool is still running")
        if self._state == CLOSE:
            self.run_until(lambda: not self.cache, None)
            self._record_completion_order()

    def __enter__(self) -> "SimPool":
        self._check_running()
        return self

    def __exit__(self, *_exc: Any) -> None:
        self.terminate()

    def __reduce__(self) -> Any:
        raise NotImplementedError("pool objects cannot be passed between processes or pickled")

    # ------------------------------------------------------------ scheduler
    def _record_completion_order(self) -> None:
        if self.completions:
            self.sched.completion_orders.append(self.completions)
            self.completions = []

    def _push(self, delay: float, kind: str, data: Any) -> None:
        self.sched.seq += 1
        heapq.heappush(self.events, (self.sched.now + delay, self.sched.seq, kind, data))

    def _submit(self, job: Any, chunks: List[Tuple[str, Callable, Any, int]]) -> None:
        if self.batch is None:
            self.batch = self.sched.next_batch()
        for index, (mode, func, chunk, count) in enumerate(chunks):
            start_position = self.position
            self.position += count
            chunk_id = self.chunk_counter
            self.chunk_counter += 1
            try:
                blob = pickle.dumps((mode, func, chunk))
            except Exception as err:  # pylint: disable=broad-except
                # as in Pool._handle_tasks: the chunk fails with the pickling error
                self.sched.fired["unpicklable_task"] += 1
                self.sched.log.append(["task-pickle-failed", chunk_id, type(err).__name__])
                self._push(0.0, "report", (job, index, (False, err), chunk_id, None))
                continue
            self.queue.append((job, index, blob, count, start_position, chunk_id))
        self._dispatch()

    def _duration(self, position: int) -> float:
        batch = self.batch or {}
        durations = batch.get("durations") or []
        if position < len(durations):
            return float(durations[position]) / 1000.0
        return float(batch.get("default", 1.0)) / 1000.0

    def _dispatch(self) -> None:
        batch = self.batch or {}
        while self.idle and self.queue and self._state != TERMINATE:
            worker = self.idle.pop(0)
            job, index, blob, count, start_position, chunk_id = self.queue.popleft()
            mode, func, chunk = pickle.loads(blob)     # the worker's private copy
            calls = [0]

            def counted(*args: Any, **kwargs: Any) -> Any:
                calls[0] += 1
                return func(*args, **kwargs)
            self.sched.in_worker += 1
            try:
                if mode == "apply":
                    value = _apply(counted, chunk)
                elif mode == "map1":
                    value = counted(chunk[0])
                elif mode == "starmap":
                    # exactly what the stdlib worker runs (mapstar / starmapstar): note that a StopIteration
                    # raised by a call ends the iteration silently and the chunk's result is just shorter
                    value = _starmapstar(counted, chunk)
                else:
                    value = _mapstar(counted, chunk)
                if mode in ("map", "starmap") and len(value) != len(chunk):
                    self.sched.fired["chunk_truncated_by_stopiteration"] += 1
                outcome = (True, value)
            except Exception as err:  # pylint: disable=broad-except
                outcome = (False, err)
                self.sched.fired["task_raised"] += 1
            finally:
                self.sched.in_worker -= 1
            executed = calls[0]
            duration = sum(self._duration(start_position + offset) for offset in range(max(executed, 1)))
            covered = range(start_position, start_position + count)
            if any(pos in covered for pos in (batch.get("kill_positions") or [])):
                # the worker dies part way through: nothing is ever reported for this chunk
                self.sched.fired["worker_killed"] += 1
                self.sched.log.append(["worker-killed", worker, chunk_id])
                self._push(duration / 2, "died", worker)
                continue
            if any(pos in covered for pos in (batch.get("stall_positions") or [])):
                self.sched.fired["worker_stalled"] += 1
                duration += float(batch.get("stall_s", 3600.0))
            self._push(duration, "complete", (job, index, outcome, chunk_id, worker))

    def run_until(self, predicate: Callable[[], bool], timeout: Optional[float]) -> None:
        """ Processes events in (time, seq) order until predicate() holds, the
            deadline passes (clock jumps to it) or nothing can happen any more """
        deadline = None if timeout is None else self.sched.now + max(0.0, float(timeout))
        while not predicate():
            if not self.events:
                if deadline is None:
                    self.sched.fired["hang"] += 1
                    raise SimHang("pool would block forever")
                self.sched.now = deadline
                return
            when = self.events[0][0]
            if deadline is not None and when > deadline:
                self.sched.now = deadline
                return
            when, _seq, kind, data = heapq.heappop(self.events)
            self.sched.now = max(self.sched.now, when)
            if kind == "died":
                self.idle.append(self.next_worker)    # _maintain_pool starts a replacement
                self.next_worker += 1
                self.idle.sort()
                self._dispatch()
                continue
            job, index, outcome, chunk_id, worker = data
            if kind == "complete":
                if self.result_handler_dead:
                    continue      # nobody is left to take results off the pipe
                try:
                    blob = pickle.dumps(outcome)
                except Exception as err:  # pylint: disable=broad-except
                    # in the worker: the result cannot be sent, an error about that is sent instead
                    self.sched.fired["unpicklable_result"] += 1
                    blob = pickle.dumps((False, multiprocessing.pool.MaybeEncodingError(err, outcome[1])))
                try:
                    outcome = pickle.loads(blob)
                except Exception as err:  # pylint: disable=broad-except
                    # in the parent: the result handler thread dies on a result it cannot rebuild (e.g. an exception
                    # class whose constructor does not accept its own args), and no further result is ever delivered
                    self.sched.fired["result_handler_died"] += 1
                    self.sched.log.append(["result-handler-died", chunk_id, type(err).__name__])
                    self.result_handler_dead = True
                    continue
                self.completions.append(chunk_id)
                self.sched.log.append(["complete", chunk_id, round(self.sched.now, 6), bool(outcome[0])])
                self.idle.append(worker)
                self.idle.sort()
            if job.id in self.cache:
                job._set(index, outcome)
            self._dispatch()
