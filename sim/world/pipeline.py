""" "Pipeline in a box": the real antismash.main.run_antismash, offline, in a forked child
    process with in-process fakes for the external programs and the wall clock.

    One invocation = one simulated antiSMASH process: it starts from pristine module state
    (forked from a parent that has imported antismash but never built a config), does its
    work, and only the files in the scratch output directory survive it.
"""

import hashlib
import json
import os
import pickle
import shutil
import signal
import sys
import tempfile
import time as _real_time
import traceback
from typing import Any, Callable, Dict, List, Optional

SCRATCH_ROOT = os.environ.get("VERIF_SCRATCH", "/tmp/verif_scratch")
EPOCH = 1_700_000_000.0

# profiles used by generated hit tables: (profile, cutoff in hmmdetails, rule(s) it can fire)
DETECTION_PROFILES = {
    # single-profile rules
    "Chal_sti_synt_C": "T3PKS", "Chal_sti_synt_N": "T3PKS", "PUFA_KS": "PUFA", "DarB": "resorcinol",
    "hglE": "hglE-KS", "hglD": "hglE-KS", "APE_KS1": "arylpolyene", "APE_KS2": "arylpolyene", "PpyS": "PpyS-KS",
    # conjunctions
    "t2ks": "T2PKS", "t2clf": "T2PKS",
    "PKS_AT": "T1PKS/transAT-PKS", "PKS_KS": "T1PKS", "mod_KS": "T1PKS", "hyb_KS": "T1PKS", "itr_KS": "T1PKS",
    "tra_KS": "transAT", "Condensation": "NRPS", "AMP-binding": "NRPS", "A-OX": "NRPS", "PP-binding": "NRPS-like",
    "LANC_like": "lanthipeptide", "Lant_dehydr_N": "lanthipeptide-class-i", "Lant_dehydr_C": "lanthipeptide-class-i",
    "phytoene_synt": "terpene",
}

DOMAIN_PROFILES = {  # NRPS/PKS domain profile -> length
    "Condensation_LCL": 300, "Condensation_Starter": 300, "AMP-binding": 400, "PCP": 70, "Thioesterase": 250,
    "Epimerization": 300, "PKS_KS": 420, "PKS_AT": 300, "PKS_KR": 180, "PKS_DH": 160, "PKS_ER": 300, "ACP": 70,
    "PKS_Docking_Nterm": 30, "PKS_Docking_Cterm": 70, "NRPS-COM_Nterm": 35, "NRPS-COM_Cterm": 20, "TD": 250,
    "cMT": 220, "nMT": 220, "oMT": 220, "CAL_domain": 400, "Trans-AT_docking": 150, "ECH": 250,
    "Hybrid-KS": 60, "Modular-KS": 60, "Iterative-KS": 60, "Enediyne-KS": 60, "Trans-AT-KS": 60,
}


# every domain name the NRPS/PKS module builder classifies (module_identification.CLASSIFICATIONS)
DOMAIN_CLASSES = {
    "A": ["AMP-binding", "A-OX"], "AT": ["PKS_AT"],
    "C": ["Cglyc", "Condensation_DCL", "Condensation_LCL", "Condensation_sid", "Condensation_Starter",
          "Condensation_Dual", "Heterocyclization"],
    "E": ["Abhydrolase_1", "cAT", "Epimerization", "Thioesterase", "TD"], "KS": ["PKS_KS"],
    "+": ["PKS_DH", "PKS_DH2", "PKS_DHt", "PKS_KR", "PKS_ER", "cMT", "nMT", "oMT", "Beta_elim_lyase",
          "LPG_synthase_C", "TauD"],
    "CP": ["ACP", "ACP_beta", "PCP", "PKS_PP", "PP-binding"], "S": ["CAL_domain", "SAT"],
    "docking": ["NRPS-COM_Cterm", "NRPS-COM_Nterm", "PKS_Docking_Cterm", "PKS_Docking_Nterm"],
    ".": ["ACPS", "Aminotran_1_2", "B", "ECH", "F", "FkbH", "GNAT", "Hal", "NAD_binding_4", "Polyketide_cyc", "PS",
          "PT", "TIGR02353", "X"],
    "!": ["Trans-AT_docking", "TIGR01720"],
}
for _names in DOMAIN_CLASSES.values():
    for _name in _names:
        DOMAIN_PROFILES.setdefault(_name, 60)
MAIN_DOMAINS = sorted(name for name in DOMAIN_PROFILES if not name.endswith("-KS"))

# type II PKS profiles (t2pks.hmm is emptied in this sandbox; names follow <protein type>_<function>)
T2PKS_PROFILES = ["KS", "CLF_7", "CLF_8|9", "CLF_11|12", "ACP", "KR", "CYC_C7-C12", "CYC_C5-C14", "CYC_C9-C14",
                  "CYC_C5-C14/C3-C16", "MET", "GT", "HAL"]
for _name in T2PKS_PROFILES:
    DOMAIN_PROFILES.setdefault(_name, 60)


def terpene_profiles() -> List[Dict[str, Any]]:
    """ name, length and cutoff of the terpene profiles the terpene module knows (its own data file) """
    import antismash.modules.terpene as terpene
    path = os.path.join(os.path.dirname(terpene.__file__), "data", "hmm_properties.json")
    with open(path, encoding="utf-8") as handle:
        return [{"name": p["name"], "length": int(p["length"]), "cutoff": float(p["cutoff"]), "type": p["type"]}
                for p in json.load(handle)["profiles"]]


def _hmm_names(path: str) -> List[Dict[str, Any]]:
    """ NAME / LENG of every profile in a HMMer3 file of the code base itself """
    found: List[Dict[str, Any]] = []
    with open(path, encoding="utf-8") as handle:
        for line in handle:
            if line.startswith("NAME "):
                found.append({"name": line.split(None, 1)[1].strip(), "length": 60})
            elif line.startswith("LENG ") and found:
                found[-1]["length"] = int(line.split()[1])
    return found


def smcog_profiles() -> List[Dict[str, Any]]:
    """ the first few secondary metabolism COGs the gene function module knows (smcogs.hmm itself is emptied
        in this sandbox; hmmscan names the hits '<id>:<description>') """
    from antismash.detection.genefunctions.tools import smcogs
    with open(smcogs.METADATA, encoding="utf-8") as handle:
        profiles = json.load(handle)["profiles"]
    return [{"name": f"{p['id']}:{p['description'].replace(' ', '_')}", "length": 60}
            for p in sorted(profiles, key=lambda p: p["id"])[:10]]


def extras_profiles() -> List[Dict[str, Any]]:
    """ the 'extras' gene function profiles, with the cutoff of each from the module's metadata """
    from antismash.detection.genefunctions.tools import extras
    with open(extras.ENTRY_DATA, encoding="utf-8") as handle:
        cutoffs = {entry["identifier"]: float(entry["cutoff"]) for entry in json.load(handle)["entries"]}
    return [dict(p, cutoff=cutoffs[p["name"]]) for p in sorted(_hmm_names(extras.DATABASE), key=lambda p: p["name"])
            if p["name"] in cutoffs][:8]


def rre_profiles() -> List[Dict[str, Any]]:
    """ the RRE profiles of RREFinder's own database """
    import antismash.modules.rrefinder as rrefinder
    path = os.path.join(os.path.dirname(rrefinder.__file__), "data", "RREFam.hmm")
    return sorted(_hmm_names(path), key=lambda p: p["name"])[:8]


# databases that only exist below the (scratch) database directory: name -> (accession, cutoff)
TIGR_PROFILES = {"TIGR00001": ("TIGR00001", 30.0), "TIGR01720": ("TIGR01720", 25.0), "TIGR02353": ("TIGR02353", 25.0),
                 "TIGR03604": ("TIGR03604", 40.0), "TIGR04098": ("TIGR04098", 20.0)}
RESFAM_PROFILES = {"ABCAntibioticEffluxPump": ("RF0007", 40.0), "ClassA": ("RF0053", 40.0), "MFS_efflux": ("RF0098", 30.0),
                   "vanA": ("RF0155", 50.0)}
MITE_ENTRIES = {
    "MITE0000001": {"accession": "MITE0000001", "description": "simulated methyltransferase", "groups": [2],
                    "functions": ["methyltransferase"], "version": "1"},
    "MITE0000002": {"accession": "MITE0000002", "description": "simulated oxidase", "groups": [1],
                    "functions": ["hydroxylase", "oxidase"], "version": "2"},
    "MITE0000003": {"accession": "MITE0000003", "description": "simulated halogenase", "groups": [1],
                    "functions": ["halogenase"], "version": "1"},
}


def module_layout(rng: Any) -> List[Any]:
    """ A seeded domain layout for one gene: 1-3 modules in the grammar the module builder documents
        ([starter] loader [modification...] carrier [finalisation]), including trans-AT modules, CoA-ligase
        starters, the double carrier protein case and occasional stray domains.
        Entries are names, or (name, KS subtype) pairs. """
    pick = rng.choice
    layout: List[Any] = []
    count = rng.randint(1, 3)
    for index in range(count):
        flavour = pick(["pks", "pks", "nrps", "nrps", "transat", "cal", "double_cp"])
        if flavour == "pks":
            module = [("PKS_KS", pick(["Hybrid-KS", "Modular-KS", "Iterative-KS", None])), "PKS_AT"]
            module += rng.sample(["PKS_DH", "PKS_KR", "PKS_ER", "cMT", "oMT"], rng.randint(0, 2))
            module.append(pick(["ACP", "PKS_PP", "PP-binding"]))
        elif flavour == "nrps":
            module = [pick(DOMAIN_CLASSES["C"]), pick(["AMP-binding", "AMP-binding", "A-OX"])]
            if rng.random() < 0.3:
                module.append(pick(["nMT", "cMT", "oMT"]))
            module.append(pick(["PCP", "PP-binding"]))
            if rng.random() < 0.3:
                module.append("Epimerization")
        elif flavour == "transat":
            module = [("PKS_KS", "Trans-AT-KS")] + rng.sample(["PKS_DH", "PKS_KR", "cMT"], rng.randint(0, 2))
            module.append(pick(["ACP", "ACP_beta"]))
            if rng.random() < 0.3:
                module.append("PKS_KR")
        elif flavour == "cal":
            module = ["CAL_domain", pick(["ACP", "PCP"])]
        else:
            module = [("PKS_KS", "Trans-AT-KS"), "ACP", "ACP", "LPG_synthase_C", "Beta_elim_lyase"]
        if rng.random() < (0.6 if index == count - 1 else 0.15):
            module.append(pick(DOMAIN_CLASSES["E"]))
        if rng.random() < 0.15:
            module.insert(rng.randrange(len(module) + 1), pick(DOMAIN_CLASSES["."] + DOMAIN_CLASSES["!"]))
        layout.extend(module)
    if rng.random() < 0.2:
        layout.insert(0, pick(["NRPS-COM_Nterm", "PKS_Docking_Nterm"]))
    if rng.random() < 0.2:
        layout.append(pick(["NRPS-COM_Cterm", "PKS_Docking_Cterm"]))
    return layout


def scratch_dir(prefix: str) -> str:
    os.makedirs(SCRATCH_ROOT, exist_ok=True)
    return tempfile.mkdtemp(prefix=prefix, dir=SCRATCH_ROOT)


PFAM_PROFILES = {  # name -> (accession, trusted cutoff); real Pfam identifiers so that pfam2go finds GO terms
    "ketoacyl-synt": ("PF00109.30", 25.0), "AMP-binding": ("PF00501.32", 20.0), "PP-binding": ("PF00550.29", 20.0),
    "Condensation": ("PF00668.24", 20.0), "Acyl_transf_1": ("PF00698.25", 20.0), "KR": ("PF08659.14", 20.0),
    "Thioesterase": ("PF00975.24", 20.0), "p450": ("PF00067.26", 20.0), "ABC_tran": ("PF00005.31", 20.0),
}


def database_dir() -> str:
    """ A scratch database directory that satisfies what the pipeline looks for: an (empty) transATor
        profile file and a small Pfam database with pressed-file placeholders.  The path is the same for
        every process (it ends up in the results JSON); it is built aside and renamed into place. """
    final = os.path.join(SCRATCH_ROOT, "databases")
    if os.path.exists(os.path.join(final, "complete")):
        return final
    os.makedirs(SCRATCH_ROOT, exist_ok=True)
    path = tempfile.mkdtemp(prefix="databases_build_", dir=SCRATCH_ROOT)
    target = os.path.join(path, "nrps_pks", "transATor", "1.0")
    os.makedirs(target)
    with open(os.path.join(target, "transATor.hmm"), "w", encoding="utf-8"):
        pass
    # two Pfam releases: the accession versions differ, so results name the release they came from
    for release, bump in (("35.0", 0), ("34.0", -1)):
        pfam = os.path.join(path, "pfam", release)
        os.makedirs(pfam)
        with open(os.path.join(pfam, "Pfam-A.hmm"), "w", encoding="utf-8") as handle:
            for name, (accession, cutoff) in PFAM_PROFILES.items():
                base, version = accession.split(".")
                handle.write(f"HMMER3/f [3.1b2 | February 2015]\nNAME  {name}\nACC   {base}.{int(version) + bump}\n"
                             f"DESC  simulated {name}\nLENG  60\nTC    {cutoff} {cutoff};\n//\n")
        stamp = os.path.getmtime(os.path.join(pfam, "Pfam-A.hmm")) + 5
        for ext in ("h3f", "h3i", "h3m", "h3p"):
            pressed = os.path.join(pfam, f"Pfam-A.hmm.{ext}")
            with open(pressed, "w", encoding="utf-8") as handle:
                handle.write("placeholder for hmmpress output\n")
            os.utime(pressed, (stamp, stamp))
    for subdir, filename, table in (("tigrfam", "TIGRFam.hmm", TIGR_PROFILES), ("resfam", "Resfams.hmm", RESFAM_PROFILES)):
        os.makedirs(os.path.join(path, subdir))
        with open(os.path.join(path, subdir, filename), "w", encoding="utf-8") as handle:
            for name, (accession, cutoff) in table.items():
                handle.write(f"HMMER3/f [3.1b2 | February 2015]\nNAME  {name}\nACC   {accession}\nDESC  simulated {name}\n"
                             f"LENG  60\nTC    {cutoff} {cutoff};\nGA    {cutoff} {cutoff};\n//\n")
    mite = os.path.join(path, "mite", "1.0")
    os.makedirs(mite)
    with open(os.path.join(mite, "metadata.json"), "w", encoding="utf-8") as handle:
        json.dump({"version": "1.0", "url": "https://mite.example.org/repository/{accession}", "entries": MITE_ENTRIES},
                  handle)
    with open(os.path.join(mite, "mite.fasta"), "w", encoding="utf-8") as handle:
        handle.write("".join(f">{name}\nMAGIC\n" for name in MITE_ENTRIES))
    with open(os.path.join(path, "complete"), "w", encoding="utf-8"):
        pass
    try:
        os.rename(path, final)
    except OSError:
        shutil.rmtree(path, ignore_errors=True)   # another process won the race
    return final


# ---------------------------------------------------------------- inputs

def write_genbank(path: str, records: List[Dict[str, Any]]) -> None:
    """ records: [{"id", "seq", "circular", "genes": [{"name", "parts", "strand"}], "description"}] """
    from Bio import SeqIO
    from Bio.Seq import Seq
    from Bio.SeqFeature import CompoundLocation, SeqFeature, SimpleLocation
    from Bio.SeqRecord import SeqRecord
    bio_records = []
    for spec in records:
        record = SeqRecord(Seq(spec["seq"]), id=spec["id"], name=spec.get("name", spec["id"])[:16],
                           description=spec.get("description", "simulated record"))
        record.annotations["molecule_type"] = "DNA"
        record.annotations["topology"] = "circular" if spec.get("circular") else "linear"
        for key, val in (spec.get("annotations") or {}).items():
            record.annotations[key] = val
        for gene in spec.get("genes", []):
            parts = [SimpleLocation(s, e, gene["strand"]) for s, e in gene["parts"]]
            location = parts[0] if len(parts) == 1 else CompoundLocation(parts)
            size = sum(e - s for s, e in gene["parts"])
            qualifiers = {"locus_tag": [gene["name"]],
                          "translation": [gene.get("translation") or ("M" + "A" * max(0, size // 3 - 1))]}
            if gene.get("product"):
                qualifiers["product"] = [gene["product"]]
            record.features.append(SeqFeature(location, type="CDS", qualifiers=qualifiers))
        bio_records.append(record)
    with open(path, "w", encoding="utf-8") as handle:
        SeqIO.write(bio_records, handle, "genbank")


# ---------------------------------------------------------------- fakes

class FakeHSP:
    """ Stands in for Bio.SearchIO HSP objects: identity equality, hash supplied by the
        identity-hash seam (so sets of these are as schedulable as sets of features) """
    __slots__ = ("query_id", "hit_id", "bitscore", "evalue", "hit_start", "hit_end", "query_start", "query_end",
                 "hit_description", "_serial")
    _counter = 0

    def __init__(self, **kwargs: Any) -> None:
        self.hit_description = ""
        for key, val in kwargs.items():
            setattr(self, key, val)
        FakeHSP._counter += 1
        self._serial = FakeHSP._counter

    def __hash__(self) -> int:
        from sim.world import idhash
        return idhash._hash(self)  # pylint: disable=protected-access

    def __repr__(self) -> str:
        return f"FakeHSP({self.query_id}->{self.hit_id} {self.bitscore})"


class FakeQueryResult:
    def __init__(self, ident: str, accession: str, hsps: List[FakeHSP]) -> None:
        self.id = ident
        self.accession = accession
        self.hsps = hsps
        self.description = ""

    def __iter__(self):
        return iter(self.hsps)

    def __len__(self) -> int:
        return len(self.hsps)


def _fasta_names(fasta: str) -> List[str]:
    return [line[1:].split()[0] for line in fasta.splitlines() if line.startswith(">")]


def make_hmmsearch(hits: List[Dict[str, Any]]) -> Callable:
    """ hits: [{"cds", "profile", "bitscore", "evalue", "start", "end"}] ; hmmsearch has the profile
        as query and the gene as hit """
    def fake(_hmm_file: str, fasta: str, use_tempfile: bool = False) -> List[FakeQueryResult]:  # pylint: disable=unused-argument
        present = set(_fasta_names(fasta))
        by_profile: Dict[str, List[FakeHSP]] = {}
        order: List[str] = []
        for hit in hits:
            if hit["cds"] not in present:
                continue
            if hit["profile"] not in by_profile:
                by_profile[hit["profile"]] = []
                order.append(hit["profile"])
            by_profile[hit["profile"]].append(FakeHSP(
                query_id=hit["profile"], hit_id=hit["cds"], bitscore=float(hit["bitscore"]),
                evalue=float(hit.get("evalue", 1e-20)), hit_start=int(hit["start"]), hit_end=int(hit["end"]),
                query_start=int(hit.get("qstart", 1)), query_end=int(hit.get("qend", 100))))
        return [FakeQueryResult(profile, profile, by_profile[profile]) for profile in order]
    return fake


def make_hmmscan(domain_hits: Dict[str, List[Dict[str, Any]]]) -> Callable:
    """ domain_hits: {target file basename: [{"cds", "profile", "bitscore", "evalue", "start", "end"}]};
        hmmscan has the gene as query and the profile as hit """
    def fake(target_hmmfile: str, query_sequence: str, opts: Any = None, results_file: Any = None,  # pylint: disable=unused-argument
             ) -> List[FakeQueryResult]:
        if not query_sequence:
            raise ValueError("Cannot run hmmscan on empty sequence")
        present = _fasta_names(query_sequence)
        table = domain_hits.get(os.path.basename(target_hmmfile), [])
        results = []
        for name in present:
            hsps = [FakeHSP(query_id=name, hit_id=hit["profile"], bitscore=float(hit["bitscore"]),
                            evalue=float(hit.get("evalue", 1e-20)), query_start=int(hit["start"]),
                            query_end=int(hit["end"]), hit_start=1, hit_end=int(hit["end"]) - int(hit["start"]),
                            hit_description=f"simulated {hit['profile']}")
                    for hit in table if hit["cds"] == name]
            if hsps:
                results.append(FakeQueryResult(name, name, hsps))
        return results
    return fake


def make_diamond(mite_hits: List[Dict[str, Any]]) -> Callable:
    """ mite_hits: [{"cds", "entry", "identity", "bitscore", "evalue"}] -> diamond's tabular output for the
        genes present in the query file, in table order (diamond reports the hits of a query best first, the
        table is generated in that order) """
    def fake(query_file: str, database_file: str, mode: str = "blastp", opts: Any = None) -> str:  # pylint: disable=unused-argument
        with open(query_file, encoding="utf-8") as handle:
            present = set(_fasta_names(handle.read()))
        lines = []
        for hit in mite_hits:
            if hit["cds"] in present:
                lines.append("\t".join(str(part) for part in [
                    hit["cds"], hit["entry"], hit["identity"], 100, 5, 0, 1, 100, 1, 100, hit["evalue"], hit["bitscore"]]))
        return "\n".join(lines) + ("\n" if lines else "")
    return fake


_LAYOUT_JUNK: List[Any] = []


def _layout_step(inv: Dict[str, Any], fake: Callable) -> Callable:
    """ "Any memory layout" while the run proceeds: every call of an external tool is a point where a real
        process has allocated and freed memory (pipes, output buffers, parsing).  Here a number of small
        objects decided by the schedule's salt and the call count is allocated (and an older batch freed), so
        which freed addresses later allocations reuse differs between schedules - and only between schedules:
        with salt 0 nothing happens. """
    salt = int(inv.get("salt", 0))
    calls = [0]

    def wrapper(*args: Any, **kwargs: Any) -> Any:
        calls[0] += 1
        if salt:
            count = (salt // (7 * calls[0] + 1)) % 29
            _LAYOUT_JUNK.append([([], {}, (calls[0], i)) for i in range(count)])
            if len(_LAYOUT_JUNK) > 3:
                del _LAYOUT_JUNK[0]
        return fake(*args, **kwargs)
    return wrapper


class SimClock:
    """ The only clock the invocation reads """

    def __init__(self, start: float) -> None:
        self.now = float(start)
        self.start = float(start)

    def time(self) -> float:
        self.now += 0.25     # every reading advances simulated time a little, deterministically
        return self.now


def _install(inv: Dict[str, Any]) -> None:
    import datetime as real_datetime
    import antismash.main as main
    from antismash.common import subprocessing, utils
    from antismash.common.hmm_rule_parser import cluster_prediction
    from antismash.common.subprocessing import hmmscan as hmmscan_module
    from sim.world import idhash

    idhash.install(int(inv.get("salt", 0)))
    main.check_prerequisites = lambda *args, **kwargs: None
    main._log_found_executables = lambda options: None  # pylint: disable=protected-access
    cluster_prediction.run_hmmsearch = _layout_step(inv, make_hmmsearch(inv.get("hits", [])))
    fake_scan = _layout_step(inv, make_hmmscan(inv.get("domain_hits", {})))
    subprocessing.run_hmmscan = fake_scan
    hmmscan_module.run_hmmscan = fake_scan
    real_lengths = utils.get_hmm_lengths
    fake_files = set(inv.get("domain_hits", {})) | {"nrpspksdomains.hmm", "abmotifs.hmm", "ksdomains.hmm",
                                                     "transATor.hmm", "t2pks.hmm"}
    # profile files that exist (in the code base or the scratch database directory) are read for real
    fake_files -= {"extras.hmm", "Resfams.hmm", "TIGRFam.hmm", "RREFam.hmm"}
    smcog_lengths = {profile["name"]: profile["length"] for profile in smcog_profiles()}
    from antismash.common.subprocessing import diamond as diamond_module
    diamond_module.run_diamond_search = make_diamond(inv.get("domain_hits", {}).get("mite.fasta", []))   # MITE lookup of the gene functions
    subprocessing.run_blastp = lambda *args, **kwargs: []     # starter unit search of the type II PKS module

    def lengths(hmm_file: str) -> Dict[str, int]:
        if os.path.basename(hmm_file) in fake_files:
            table = dict(DOMAIN_PROFILES)
            table.update(inv.get("domain_lengths", {}))
            table.update(smcog_lengths)
            return table
        return real_lengths(hmm_file)
    utils.get_hmm_lengths = lengths
    from antismash.modules.t2pks import t2pks_analysis
    t2pks_analysis.get_hmm_lengths = lengths       # imported there by name
    from antismash.modules.terpene import terpene_analysis
    terpene_analysis.run_hmmscan = fake_scan       # imported there by name

    clock = SimClock(float(inv.get("clock", EPOCH)))

    class _Time:
        @staticmethod
        def time() -> float:
            return clock.time()

        def __getattr__(self, name: str) -> Any:
            return getattr(_real_time, name)

    class _DateTime(real_datetime.datetime):
        @classmethod
        def now(cls, tz: Any = None) -> "real_datetime.datetime":  # pylint: disable=arguments-differ
            # the date does not advance with the number of clock readings: a fresh analysis and a
            # reuse of its results in the same simulated second print the same "Run date"
            return real_datetime.datetime.fromtimestamp(clock.start, tz=real_datetime.timezone.utc).replace(tzinfo=None)

    main.time = _Time()
    main.datetime = _DateTime


def write_sideload(work: str, sideload: Any) -> str:
    """ writes one sideload document, or several (a list) to sideload.json, sideload_2.json, ...; returns the
        value for --sideload (comma separated paths) """
    documents = sideload if isinstance(sideload, list) else [sideload]
    paths = []
    for index, document in enumerate(documents):
        path = os.path.join(work, "sideload.json" if not index else f"sideload_{index + 1}.json")
        with open(path, "w", encoding="utf-8") as handle:
            json.dump(document, handle)
        paths.append(path)
    return ",".join(paths)


def base_args(outdir: str, cpus: int = 1) -> List[str]:
    return ["--minimal", "--enable-tta", "--databases", database_dir(), "--output-dir", outdir,
            "--cpus", str(cpus), "--genefinding-tool", "none", "--logfile", os.path.join(outdir, "..", "log.txt")]


def snapshot(directory: str, keep_content: bool = False) -> Dict[str, Any]:
    """ name -> sha256 (and optionally content) of every file below directory """
    out: Dict[str, Any] = {}
    for root, dirs, files in os.walk(directory):
        dirs.sort()
        for name in sorted(files):
            path = os.path.join(root, name)
            rel = os.path.relpath(path, directory)
            with open(path, "rb") as handle:
                data = handle.read()
            entry: Dict[str, Any] = {"sha": hashlib.sha256(data).hexdigest()[:20], "size": len(data)}
            if keep_content:
                entry["content"] = data.decode("utf-8", "replace")
            out[rel] = entry
    return out


def _child(inv: Dict[str, Any], hooks: Optional[Callable[[Dict[str, Any]], None]]) -> Dict[str, Any]:
    import logging
    if inv.get("logging"):
        # antiSMASH sets up its own logging (verbosity is part of the scenario); nobody reads the console
        sys.stderr = open(os.devnull, "w", encoding="utf-8")  # pylint: disable=consider-using-with
        logging.disable(logging.NOTSET)     # (the forking process may have had logging switched off)
    else:
        logging.disable(logging.CRITICAL)
    import antismash.main as main
    from antismash.config import build_config
    _install(inv)
    result: Dict[str, Any] = {"events": []}
    inv["_events"] = result["events"]
    if hooks is not None:
        hooks(inv)
    try:
        options = build_config(list(inv["args"]), isolated=True, modules=main.get_all_modules())
        code = main.run_antismash(inv.get("input"), options)
        result["status"] = f"exit:{code}"
    except SystemExit as err:
        result["status"] = f"sysexit:{err.code}"
    except BaseException as err:  # pylint: disable=broad-except
        result["status"] = f"raised:{type(err).__name__}"
        result["error"] = f"{type(err).__name__}: {str(err)[:300]}"
        result["traceback"] = traceback.format_exc()[-1500:]
    return result


def invoke(inv: Dict[str, Any], hooks: Optional[Callable[[Dict[str, Any]], None]] = None,
           timeout_s: int = 120) -> Dict[str, Any]:
    """ Runs one antiSMASH invocation in a forked child; returns its status and recorded events.
        `hooks(inv)` runs in the child after the fakes are installed (fault arming, recorders);
        it may append to inv["_events"]. """
    result_path = os.path.join(SCRATCH_ROOT, f"result_{os.getpid()}_{id(inv)}.pkl")
    sys.stdout.flush()
    sys.stderr.flush()
    pid = os.fork()
    if pid == 0:
        code = 0
        try:
            signal.alarm(timeout_s)
            devnull = os.open(os.devnull, os.O_WRONLY)
            os.dup2(devnull, 1)
            os.dup2(devnull, 2)
            result = _child(inv, hooks)
            with open(result_path, "wb") as handle:
                pickle.dump(result, handle)
        except BaseException:  # pylint: disable=broad-except
            code = 70
            try:
                with open(result_path, "wb") as handle:
                    pickle.dump({"status": "harness-error", "traceback": traceback.format_exc()[-2000:], "events": []},
                                handle)
            except Exception:  # pylint: disable=broad-except
                pass
        finally:
            os._exit(code)
    _, status = os.waitpid(pid, 0)
    try:
        with open(result_path, "rb") as handle:
            result = pickle.load(handle)
        os.unlink(result_path)
    except (OSError, EOFError, pickle.UnpicklingError):
        result = {"status": f"child-died:{status}", "events": []}
    result["wait_status"] = status
    return result


def fork_call(func: Callable[[], Any], timeout_s: int = 120) -> Any:
    """ Runs func() in a forked child (pristine antismash module state) and returns its picklable result,
        or {"harness-error": traceback} """
    result_path = os.path.join(SCRATCH_ROOT, f"call_{os.getpid()}_{id(func)}.pkl")
    sys.stdout.flush()
    sys.stderr.flush()
    pid = os.fork()
    if pid == 0:
        code = 0
        try:
            signal.alarm(timeout_s)
            devnull = os.open(os.devnull, os.O_WRONLY)
            os.dup2(devnull, 1)
            os.dup2(devnull, 2)
            import logging
            logging.disable(logging.CRITICAL)
            value = func()
            with open(result_path, "wb") as handle:
                pickle.dump(value, handle)
        except BaseException:  # pylint: disable=broad-except
            code = 70
            with open(result_path, "wb") as handle:
                pickle.dump({"harness-error": traceback.format_exc()[-2000:]}, handle)
        finally:
            os._exit(code)
    os.waitpid(pid, 0)
    try:
        with open(result_path, "rb") as handle:
            value = pickle.load(handle)
        os.unlink(result_path)
        return value
    except (OSError, EOFError, pickle.UnpicklingError):
        return {"harness-error": "child died without a result"}


def cleanup(path: str) -> None:
    shutil.rmtree(path, ignore_errors=True)
