""" Building real secmet Records from JSON specs, and canonical dumps of Records.

    spec = {"id": str, "seq": str, "circular": bool, "description": str,
            "genes": [{"name", "parts": [[s, e], ...], "strand", "cores": [products]}],
            "protos": [{"core": parts, "loc": parts, "product", "cutoff"}],
            "subs": [{"loc": parts, "label"}],
            "create": bool (create candidate clusters and regions),
            "skip": None | str, "original_id": None | str, "record_index": None | int,
            "annotations": {key: str | [str]}}
"""

from typing import Any, Dict, List, Optional


def make_location(parts: List[List[int]], strand: int = 1, fuzzy: str = ""):
    """ fuzzy: "<" the first coordinate is open ("<1..300"), ">" the last one is ("601..>900"), "<>" both """
    from antismash.common.secmet.locations import AfterPosition, BeforePosition, CompoundLocation, FeatureLocation
    low = min(s for s, _ in parts)
    high = max(e for _, e in parts)

    def part(start: int, end: int):
        return FeatureLocation(BeforePosition(start) if "<" in fuzzy and start == low else start,
                               AfterPosition(end) if ">" in fuzzy and end == high else end, strand)
    if len(parts) == 1:
        return part(parts[0][0], parts[0][1])
    return CompoundLocation([part(s, e) for s, e in parts])


def build_record(spec: Dict[str, Any]):
    from antismash.common.secmet import Record
    from antismash.common.secmet.features import CDSFeature, Protocluster, SubRegion
    from antismash.common.secmet.qualifiers.gene_functions import GeneFunction
    annotations = {"molecule_type": "DNA", "topology": "circular" if spec.get("circular") else "linear"}
    seq = spec["seq"]
    if spec.get("seq_repeat"):
        # a long sequence given compactly: a block repeated, then a tail
        seq = spec["seq_repeat"]["block"] * int(spec["seq_repeat"]["times"]) + spec["seq_repeat"]["tail"]
    record = Record(seq, id=spec.get("id", "rec"), name=spec.get("name", spec.get("id", "rec")),
                    description=spec.get("description", ""), annotations=annotations)
    for key, val in sorted((spec.get("annotations") or {}).items()):
        record.add_annotation(key, val)
    genes = list(spec.get("genes", []))
    order = spec.get("build_order", "genes_first")
    if order == "areas_first":
        # areas (and regions) exist before any gene: children are linked one by one as genes arrive,
        # in the order given, as when an annotated GenBank file is read back
        _add_areas(record, spec)
        if spec.get("create"):
            record.create_candidate_clusters()
            record.create_regions()
        first, later = [], genes
    else:
        first, later = genes, []
    for gene in first + later:
        size = sum(e - s for s, e in gene["parts"])
        cds = CDSFeature(make_location(gene["parts"], gene["strand"], gene.get("fuzzy", "")),
                         translation=gene.get("translation") or "M" * max(1, size // 3),
                         locus_tag=gene["name"], product=gene.get("product", ""))
        for product in gene.get("cores", []):
            cds.gene_functions.add(GeneFunction.CORE, "sim", "sim core", product=product)
        record.add_cds_feature(cds)
    if order != "areas_first":
        _add_areas(record, spec)
        if spec.get("create"):
            record.create_candidate_clusters()
            record.create_regions()
    record.skip = spec.get("skip")
    if spec.get("original_id"):
        record.original_id = spec["original_id"]
    if spec.get("record_index") is not None:
        record.record_index = spec["record_index"]
    return record


def _add_areas(record, spec: Dict[str, Any]) -> None:
    from antismash.common.secmet.features import Protocluster, SubRegion
    for proto in spec.get("protos", []):
        record.add_protocluster(Protocluster(make_location(proto["core"]), make_location(proto["loc"]), tool="sim",
                                             product=proto["product"], cutoff=proto.get("cutoff", 5),
                                             neighbourhood_range=proto.get("neighbourhood", 0),
                                             detection_rule="sim-rule"))
    for sub in spec.get("subs", []):
        record.add_subregion(SubRegion(make_location(sub["loc"]), tool="sim", label=sub.get("label", "")))


def _feature_dump(feature) -> Dict[str, Any]:
    out: Dict[str, Any] = {"class": type(feature).__name__, "type": feature.type, "location": str(feature.location)}
    bio = []
    try:
        bio_features = feature.to_biopython()
    except ValueError as err:
        bio_features = []
        out["bio_error"] = str(err)
    for bio_feature in bio_features:
        quals = {key: (list(val) if isinstance(val, (list, tuple)) else val)
                 for key, val in sorted(bio_feature.qualifiers.items())}
        bio.append([bio_feature.type, str(bio_feature.location), quals])
    out["bio"] = bio
    children = getattr(feature, "cds_children", None)
    if children is not None:
        out["cds_children"] = [c.get_name() for c in children]
        out["pre_origin"] = [c.get_name() for c in children.pre_origin]
        out["cross_origin"] = [c.get_name() for c in children.cross_origin]
        out["post_origin"] = [c.get_name() for c in children.post_origin]
        try:
            out["contig_edge"] = bool(feature.contig_edge)
        except ValueError as err:   # no parent record (or one without sequence, which is falsy)
            out["contig_edge"] = f"error: {err}"
        out["parent"] = str(feature.parent.location) if feature.parent is not None else None
    if hasattr(feature, "definition_cdses"):
        out["definition_cdses"] = sorted(c.get_name() for c in feature.definition_cdses)
    if type(feature).__name__ == "CDSFeature":
        out["translation"] = feature.translation
        out["region"] = str(feature.region.location) if feature.region is not None else None
        out["gene_functions"] = [str(f) for f in feature.gene_functions]
        out["name"] = feature.get_name()
    return out


def dump_record(record) -> Dict[str, Any]:
    """ Everything observable about a record that the pipeline relies on """
    out: Dict[str, Any] = {
        "id": record.id, "name": record.name, "description": record.description,
        "seq": str(record.seq), "skip": record.skip, "original_id": record.original_id,
        "record_index": record.record_index, "circular": record.is_circular(),
        "annotations": {k: v for k, v in sorted(record.annotations.items())},
        "transl_table": record.transl_table,
        "counts": record.get_feature_count(),
    }
    out["features"] = [_feature_dump(f) for f in record.all_features]
    out["numbering"] = {
        "protoclusters": [record.get_protocluster_number(p) for p in record.get_protoclusters()],
        "candidates": [record.get_candidate_cluster_number(c) for c in record.get_candidate_clusters()],
        "subregions": [record.get_subregion_number(s) for s in record.get_subregions()],
        "regions": [record.get_region_number(r) for r in record.get_regions()],
    }
    out["cds_names"] = sorted(record.get_cds_name_mapping())
    return out
