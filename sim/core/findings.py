""" Known findings: /verif/known_findings.json, read-only at run time.

    Entry: {"id": ..., "property": "Cxx", "status": "known" | "fixed",
            "what": "<what fails>", "match": {"clause": "C08-b", "sig": "<regex on the violation signature>"},
            "commit": "<fix commit, for fixed entries>"}
    Only status == "known" entries suppress a VIOLATION line (turning it into a
    KNOWN-FINDING line); "fixed" entries are a log and suppress nothing.
"""

import json
import os
import re
from typing import Any, Dict, List, Optional

PATH = os.path.join(os.path.dirname(os.path.dirname(os.path.dirname(os.path.abspath(__file__)))),
                    "known_findings.json")


def load(prop: str) -> List[Dict[str, Any]]:
    if not os.path.exists(PATH):
        return []
    with open(PATH, encoding="utf-8") as handle:
        data = json.load(handle)
    return [entry for entry in data.get("findings", []) if entry.get("property") == prop]


def match(known: List[Dict[str, Any]], violation: Dict[str, Any]) -> Optional[Dict[str, Any]]:
    for entry in known:
        if entry.get("status", "known") != "known":
            continue
        cond = entry.get("match", {})
        if cond.get("clause") and cond["clause"] != violation.get("clause"):
            continue
        if cond.get("sig") and not re.fullmatch(cond["sig"], str(violation.get("sig", ""))):
            continue
        return entry
    return None
