""" Minimisation of failing scenarios: ddmin over the scenario's op list, then
    engine specific simplification candidates, keeping only candidates that
    fail the *same clause* (and are not a known finding).
"""

import copy
import time
from typing import Any, Dict, List, Optional, Tuple

from . import findings as findings_mod


def _fails(engine, prop: str, scenario: Dict[str, Any], clause: str, known) -> Optional[Dict[str, Any]]:
    try:
        result = engine.execute(scenario, prop)
    except Exception:  # pylint: disable=broad-except
        return None
    for violation in result["violations"]:
        if violation["clause"] == clause and findings_mod.match(known, violation) is None:
            return violation
    return None


def shrink(engine, prop: str, scenario: Dict[str, Any], clause: str, violation: Dict[str, Any],
           budget_s: float, known=()) -> Tuple[Dict[str, Any], Dict[str, Any], Dict[str, Any]]:
    deadline = time.time() + budget_s
    best = copy.deepcopy(scenario)
    best_violation = violation
    tests = 0
    key = engine.ops_key()

    def attempt(candidate: Dict[str, Any]) -> bool:
        nonlocal best, best_violation, tests
        tests += 1
        found = _fails(engine, prop, candidate, clause, known)
        if found is not None:
            best = candidate
            best_violation = found
            return True
        return False

    changed = True
    rounds = 0
    while changed and time.time() < deadline:
        changed = False
        rounds += 1
        # ---- ddmin on the op list
        if key and isinstance(best.get(key), list):
            n = 2
            while len(best[key]) >= 1 and time.time() < deadline:
                ops: List[Any] = best[key]
                size = max(1, len(ops) // n)
                reduced = False
                for start in range(0, len(ops), size):
                    candidate = copy.deepcopy(best)
                    candidate[key] = ops[:start] + ops[start + size:]
                    if attempt(candidate):
                        n = max(n - 1, 2)
                        reduced = True
                        changed = True
                        break
                    if time.time() > deadline:
                        break
                if not reduced:
                    if size == 1:
                        break
                    n = min(len(ops), n * 2)
        # ---- engine specific simplifications (greedy, restart on success)
        progress = True
        while progress and time.time() < deadline:
            progress = False
            for candidate in engine.shrink_candidates(best):
                if time.time() > deadline:
                    break
                if attempt(candidate):
                    progress = True
                    changed = True
                    break
    return best, best_violation, {"tests": tests, "rounds": rounds,
                                  "ops_before": len(scenario.get(key, [])) if key else None,
                                  "ops_after": len(best.get(key, [])) if key else None}
