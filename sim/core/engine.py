""" Engine interface shared by all simulation engines.

    A *scenario* is a JSON-serialisable dict holding every choice of one
    simulated run (inputs, operations, schedule decisions, faults).  It is
    produced by `generate` from the run's PRNG and is the only input of
    `execute`, which must be a pure, repeatable function of it (and of the
    code under /repo).  Replay files store scenarios, so replay never touches
    the PRNG, and shrinking works on scenarios directly.
"""

from typing import Any, Dict, Iterator, List, Optional


class Violation(dict):
    """ {"clause": "C08-b", "detail": "...", "sig": "...", "step": int} """

    def __init__(self, clause: str, detail: str, sig: str = "", step: Optional[int] = None, **extra: Any):
        super().__init__(clause=clause, detail=detail, sig=sig or clause, step=step, **extra)


class RunResult(dict):
    """ Result of one simulated run.

        violations: list of Violation (for *all* properties the engine serves)
        probes:     {probe name: count}   "this rare condition was hit"
        faults:     {fault kind: count}   faults that actually fired
        sig:        digest identifying the run's explored behaviour (distinctness measure)
        nontrivial: whether the run counts as non-trivial by the engine's rule
        digest:     digest of the complete event trace (determinism self-test)
        sim_time:   simulated seconds covered (engines with a clock)
        steps:      operations / events executed
        aborted:    None, or {"op":..., "error":...} if the run ended early on an
                    exception that no claimed statement covers
    """

    def __init__(self) -> None:
        super().__init__(violations=[], probes={}, faults={}, sig="", nontrivial=False,
                         digest="", sim_time=0.0, steps=0, aborted=None, states=[])

    def probe(self, name: str, count: int = 1) -> None:
        self["probes"][name] = self["probes"].get(name, 0) + count

    def fault(self, name: str, count: int = 1) -> None:
        self["faults"][name] = self["faults"].get(name, 0) + count

    def violate(self, clause: str, detail: str, sig: str = "", step: Optional[int] = None, **extra: Any) -> None:
        self["violations"].append(Violation(clause, detail, sig, step, **extra))


class Engine:
    """ Base class of engines; see module docstring """
    name = "engine"
    properties: tuple = ()
    # clause prefix -> property: a violation with clause "C08-b" belongs to C08
    real_components: List[str] = []
    stub_components: List[str] = []
    rule = ""
    assumptions: List[str] = []

    def tier_config(self, prop: str, tier: str) -> Dict[str, Any]:
        """ {"runs": N, "deadline_s": wall budget, ...engine specific...} """
        raise NotImplementedError

    def prepare(self, prop: str, cfg: Dict[str, Any]) -> None:
        """ Called once in the parent before workers fork (imports, scratch dirs) """

    def generate(self, rng, cfg: Dict[str, Any], prop: str) -> Dict[str, Any]:
        raise NotImplementedError

    def execute(self, scenario: Dict[str, Any], prop: str) -> RunResult:
        raise NotImplementedError

    def shrink_candidates(self, scenario: Dict[str, Any]) -> Iterator[Dict[str, Any]]:
        """ Engine specific simplifications tried after generic ddmin of scenario["ops"] """
        return iter(())

    def ops_key(self) -> Optional[str]:
        """ Name of the list-valued scenario key that ddmin may drop elements from """
        return "ops"

    def sample_view(self, scenario: Dict[str, Any], result: RunResult) -> Any:
        """ What to write into evidence samples for a run """
        return {"scenario": scenario, "probes": result["probes"], "faults": result["faults"]}

    def clause_property(self, clause: str) -> str:
        return clause.split("-", 1)[0]

    def extra_evidence(self, prop: str, cfg: Dict[str, Any]) -> Dict[str, Any]:
        return {}
