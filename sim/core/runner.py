""" Batch runner: shards simulated runs over worker processes, merges results in
    run-index order, shrinks and verifies violations, matches known findings,
    writes evidence.

    Exit codes: 0 property held on everything explored (known findings are
    announced with KNOWN-FINDING lines), 1 violation (VIOLATION line printed),
    2 harness error (never a verdict).
"""

import concurrent.futures
import faulthandler
import json
import multiprocessing
import os
import subprocess
import sys
import time
import traceback
from typing import Any, Dict, List, Optional, Tuple

from . import findings as findings_mod
from . import shrink as shrink_mod
from .engine import Engine, RunResult
from .prng import digest, run_rng

VERIF = os.path.dirname(os.path.dirname(os.path.dirname(os.path.abspath(__file__))))
REPLAY_DIR = os.path.join(VERIF, "replays")
EVIDENCE_DIR = os.path.join(VERIF, "evidence")

_ENGINE: Optional[Engine] = None  # set in the parent before forking workers


class HarnessError(Exception):
    """ Something went wrong in the machinery itself; never a verdict """


def _summarise(engine: Engine, prop: str, index: int, scenario: Dict[str, Any], result: RunResult,
               keep_sample: bool) -> Dict[str, Any]:
    own = [v for v in result["violations"] if engine.clause_property(v["clause"]) == prop]
    other = [v for v in result["violations"] if engine.clause_property(v["clause"]) != prop]
    summary = {
        "i": index,
        "sig": result["sig"],
        "nontrivial": bool(result["nontrivial"]),
        "probes": result["probes"],
        "faults": result["faults"],
        "digest": result["digest"],
        "sim_time": result["sim_time"],
        "steps": result["steps"],
        "aborted": result["aborted"],
        "violations": own,
        "other_violations": sorted({v["clause"] for v in other}),
    }
    if own:
        summary["scenario"] = scenario
    if keep_sample:
        summary["sample"] = engine.sample_view(scenario, result)
    return summary


def _run_chunk(prop: str, seed: int, indexes: List[int], cfg: Dict[str, Any], deadline: float,
               hang_s: float) -> Dict[str, Any]:
    engine = _ENGINE
    assert engine is not None
    faulthandler.dump_traceback_later(hang_s, exit=True)
    out: List[Dict[str, Any]] = []
    states: set = set()
    skipped = 0
    try:
        for i in indexes:
            if time.time() > deadline:
                skipped += 1
                continue
            rng = run_rng(prop, seed, i)
            scenario = engine.generate(rng, cfg, prop)
            result = engine.execute(scenario, prop)
            states.update(result.get("states", ()))
            out.append(_summarise(engine, prop, i, scenario, result, keep_sample=(i < 3 or (i % 997 == 0))))
    finally:
        faulthandler.cancel_dump_traceback_later()
    return {"runs": out, "states": sorted(states), "skipped": skipped}


def run_batch(engine: Engine, prop: str, seed: int, cfg: Dict[str, Any], jobs: int,
              ) -> Dict[str, Any]:
    """ Executes cfg["runs"] simulated runs, returns merged summaries in index order """
    global _ENGINE  # pylint: disable=global-statement
    _ENGINE = engine
    runs = int(cfg["runs"])
    chunk = max(1, int(cfg.get("chunk", max(1, min(200, runs // (jobs * 4) or 1)))))
    deadline = time.time() + float(cfg.get("deadline_s", 600))
    hang_s = float(cfg.get("hang_s", float(cfg.get("deadline_s", 600)) + 300))
    chunks = [list(range(s, min(runs, s + chunk))) for s in range(0, runs, chunk)]
    merged: List[Dict[str, Any]] = []
    states: set = set()
    skipped = 0
    if jobs <= 1:
        for idx in chunks:
            part = _run_chunk(prop, seed, idx, cfg, deadline, hang_s)
            merged.extend(part["runs"])
            states.update(part["states"])
            skipped += part["skipped"]
    else:
        ctx = multiprocessing.get_context("fork")
        with concurrent.futures.ProcessPoolExecutor(max_workers=jobs, mp_context=ctx) as pool:
            futures = [pool.submit(_run_chunk, prop, seed, idx, cfg, deadline, hang_s) for idx in chunks]
            try:
                for fut in futures:
                    part = fut.result(timeout=hang_s + 60)
                    merged.extend(part["runs"])
                    if len(states) < 3_000_000:
                        states.update(part["states"])
                    skipped += part["skipped"]
            except concurrent.futures.process.BrokenProcessPool as err:
                raise HarnessError(f"worker process died (hang or crash): {err}") from err
            except concurrent.futures.TimeoutError as err:
                for proc in list(getattr(pool, "_processes", {}).values()):
                    proc.kill()
                raise HarnessError("worker chunk timed out") from err
    merged.sort(key=lambda r: r["i"])
    return {"runs": merged, "states": states, "skipped": skipped}


def write_replay(prop: str, engine: Engine, seed: int, index: Any, violation: Dict[str, Any],
                 scenario: Dict[str, Any], tag: str = "") -> str:
    os.makedirs(REPLAY_DIR, exist_ok=True)
    name = f"{prop}-{seed}-{index}{('-' + tag) if tag else ''}.json"
    path = os.path.join(REPLAY_DIR, name)
    with open(path, "w", encoding="utf-8") as handle:
        json.dump({
            "property": prop,
            "engine": engine.name,
            "seed": seed,
            "run": index,
            "clause": violation["clause"],
            "sig": violation.get("sig"),
            "detail": violation.get("detail"),
            "scenario": scenario,
        }, handle, indent=1, sort_keys=True, default=str)
    return path


def replay_file(engine: Engine, prop: str, path: str, quiet: bool = False) -> int:
    with open(path, encoding="utf-8") as handle:
        data = json.load(handle)
    engine.prepare(prop, engine.tier_config(prop, "quick"))
    result = engine.execute(data["scenario"], prop)
    own = [v for v in result["violations"] if engine.clause_property(v["clause"]) == prop]
    same = [v for v in own if v["clause"] == data["clause"]]
    if same:
        if not quiet:
            print(f"replay reproduced clause {data['clause']}: {same[0]['detail']}")
        print(f"VIOLATION property={prop} replay={path}")
        return 1
    if own:
        print(f"replay produced a different violation: {own[0]['clause']}: {own[0]['detail']}")
        print(f"VIOLATION property={prop} replay={path}")
        return 1
    if not quiet:
        print(f"replay of {path}: no violation (aborted={result['aborted']})")
    return 0


def _verify_replay_fresh(prop: str, path: str) -> Tuple[bool, str]:
    """ Replays in a fresh interpreter; must fail again """
    env = dict(os.environ)
    env["PYTHONHASHSEED"] = "0"
    proc = subprocess.run([sys.executable, "-m", "sim.cli", prop, "--replay", path, "--quiet"],
                          cwd=VERIF, env=env, capture_output=True, text=True, timeout=900, check=False)
    return proc.returncode == 1 and "VIOLATION" in proc.stdout, proc.stdout[-2000:] + proc.stderr[-2000:]


def run_check(engine: Engine, prop: str, tier: str, seed: int, jobs: int,
              overrides: Optional[Dict[str, Any]] = None, write_evidence: bool = True) -> int:
    started = time.time()
    cfg = engine.tier_config(prop, tier)
    if overrides:
        cfg.update(overrides)
    print(f"[{prop}] engine={engine.name} tier={tier} VERIF_SEED={seed} runs={cfg['runs']} jobs={jobs}", flush=True)
    engine.prepare(prop, cfg)
    if hasattr(engine, "custom_batch"):
        try:
            batch = engine.custom_batch(prop, seed, cfg, jobs)
        except RuntimeError as err:
            raise HarnessError(str(err)) from err
    else:
        batch = run_batch(engine, prop, seed, cfg, jobs)
    runs = batch["runs"]
    if not runs:
        raise HarnessError("no runs executed")
    batch_wall = time.time() - started

    # ---- aggregate
    probes: Dict[str, int] = {}
    faults: Dict[str, int] = {}
    sigs = set()
    aborted: Dict[str, int] = {}
    sim_time = 0.0
    steps = 0
    other_clauses: Dict[str, int] = {}
    samples = []
    for run in runs:
        for key, val in run["probes"].items():
            probes[key] = probes.get(key, 0) + val
        for key, val in run["faults"].items():
            faults[key] = faults.get(key, 0) + val
        if run["nontrivial"]:
            sigs.add(run["sig"])
        if run["aborted"]:
            key = f"{run['aborted'].get('op')}:{run['aborted'].get('error')}"
            aborted[key] = aborted.get(key, 0) + 1
        sim_time += run["sim_time"]
        steps += run["steps"]
        for clause in run["other_violations"]:
            other_clauses[clause] = other_clauses.get(clause, 0) + 1
        if "sample" in run and len(samples) < 4:
            samples.append(run["sample"])
    batch_digest = digest([r["digest"] for r in runs])

    # ---- violations of this property
    known = findings_mod.load(prop)
    known_hits: Dict[str, int] = {}
    unknown: Dict[str, Dict[str, Any]] = {}
    total_violating_runs = 0
    for run in runs:
        if not run["violations"]:
            continue
        total_violating_runs += 1
        for violation in run["violations"]:
            match = findings_mod.match(known, violation)
            if match is not None:
                known_hits[match["id"]] = known_hits.get(match["id"], 0) + 1
                continue
            key = violation["sig"]
            if key not in unknown:
                unknown[key] = {"violation": violation, "scenario": run["scenario"], "run": run["i"], "count": 0}
            unknown[key]["count"] += 1

    exit_code = 0
    for finding in known:
        if finding.get("status", "known") == "known" and known_hits.get(finding["id"]):
            print(f"KNOWN-FINDING: property={prop} {finding['id']}: {finding['what']} "
                  f"(seen in {known_hits[finding['id']]} runs)")
    reported = []
    for key in sorted(unknown):
        print(f"  violation kind {key}: {unknown[key]['count']} runs, first run {unknown[key]['run']}")
    shrink_budget = float(cfg.get("shrink_s", 60))
    for key in sorted(unknown)[:int(cfg.get("max_reports", 4))]:
        entry = unknown[key]
        clause = entry["violation"]["clause"]
        try:
            small, small_violation, shrink_stats = shrink_mod.shrink(
                engine, prop, entry["scenario"], clause, entry["violation"], shrink_budget, known)
        except Exception:  # pylint: disable=broad-except
            traceback.print_exc()
            small, small_violation, shrink_stats = entry["scenario"], entry["violation"], {"error": "shrink failed"}
        path = write_replay(prop, engine, seed, entry["run"], small_violation, small)
        ok, output = _verify_replay_fresh(prop, path)
        if not ok:
            # fall back to the unshrunk scenario before giving up
            path = write_replay(prop, engine, seed, entry["run"], entry["violation"], entry["scenario"], tag="full")
            ok, output = _verify_replay_fresh(prop, path)
            if not ok:
                print(f"HARNESS-ERROR: violation of {clause} in run {entry['run']} does not replay in a fresh "
                      f"process:\n{output}", flush=True)
                exit_code = 2
                continue
        print(f"violation clause={clause} runs={entry['count']} first_run={entry['run']} shrink={shrink_stats}")
        print(f"  {small_violation['detail']}")
        print(f"VIOLATION property={prop} replay={path}", flush=True)
        reported.append({"clause": clause, "sig": key, "replay": path, "runs": entry["count"],
                         "detail": small_violation["detail"]})
        if exit_code == 0:
            exit_code = 1
    if len(unknown) > len(reported) and exit_code == 0:
        exit_code = 1

    wall = time.time() - started
    # ---- evidence
    if write_evidence:
        level = cfg.get("level", "exploration")
        coverage = {
            "evaluations": len(runs),
            "distinct_nontrivial": len(sigs),
            "rule": engine.rule,
            "samples": samples,
            "exhaustive": False,
            "runs_per_hour": int(len(runs) / max(batch_wall, 1e-6) * 3600),
            "seeds": {"VERIF_SEED": seed, "per_run": f"Random('{prop}:{seed}:<i>') for i in 0..{len(runs) - 1}"},
            "simulated_time_s": round(sim_time, 3),
            "steps": steps,
            "faults_fired": dict(sorted(faults.items())),
            "reach_probes": dict(sorted(probes.items())),
            "distinct_states_or_interleavings": len(batch["states"]),
            "runs_skipped_by_deadline": batch["skipped"],
            "aborted_runs": dict(sorted(aborted.items())),
            "batch_trace_digest": batch_digest,
            "components_real": engine.real_components,
            "components_stub": engine.stub_components,
            "violating_runs": total_violating_runs,
            "violations_reported": reported,
            "known_findings_matched": known_hits,
            "violations_of_other_properties_seen_by_this_engine": other_clauses,
            "jobs": jobs,
        }
        coverage.update(engine.extra_evidence(prop, cfg))
        selftests = os.path.join(VERIF, "selftest_results.json")
        if os.path.exists(selftests):
            with open(selftests, encoding="utf-8") as handle:
                recorded = json.load(handle)
            coverage["selftests_last_recorded"] = {
                "repo_commit": recorded.get("repo_commit"),
                "sensitivity_mutants": recorded.get("sensitivity_mutants", {}).get(prop, {}),
                "seeded_changes": recorded.get("seeded_changes", {}).get(prop, {}),
                "determinism": recorded.get("determinism", {}).get(prop, []),
                "note": recorded.get("note"),
            }
        evidence = {
            "property_id": prop,
            "tier": tier,
            "seed": int(seed),
            "level": level,
            "coverage": coverage,
            "assumptions": engine.assumptions,
            "wall_s": round(wall, 2),
            "violations": len(unknown),
        }
        os.makedirs(EVIDENCE_DIR, exist_ok=True)
        tmp = os.path.join(EVIDENCE_DIR, f".{prop}.json.tmp")
        with open(tmp, "w", encoding="utf-8") as handle:
            json.dump(evidence, handle, indent=1, sort_keys=True, default=str)
        os.replace(tmp, os.path.join(EVIDENCE_DIR, f"{prop}.json"))
    zero = sorted(k for k in cfg.get("expected_probes", []) if not probes.get(k))
    print(f"[{prop}] runs={len(runs)} distinct_nontrivial={len(sigs)} states={len(batch['states'])} "
          f"violating_runs={total_violating_runs} unknown_violation_kinds={len(unknown)} "
          f"known={known_hits} aborted={sum(aborted.values())} skipped={batch['skipped']} wall={wall:.1f}s "
          f"digest={batch_digest}", flush=True)
    if zero:
        print(f"[{prop}] note: reach probes at zero: {zero}")
    return exit_code
