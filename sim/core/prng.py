""" One integer decides everything.

    Every run of every batch draws all of its choices from `run_rng(prop, seed, i)`.
    Nothing in the harness draws from the global `random` module, reads a real
    clock to make a decision, or iterates a set without sorting it.
"""

import hashlib
import json
import random


def run_rng(prop: str, seed: int, index: int, stream: str = "") -> random.Random:
    """ The PRNG of run `index` of the batch `seed` for property `prop`.
        String seeding goes through SHA-512 inside CPython, so it is independent
        of PYTHONHASHSEED.
    """
    return random.Random(f"{prop}:{int(seed)}:{int(index)}:{stream}")


def digest(obj) -> str:
    """ Stable short digest of a JSON-serialisable object """
    data = json.dumps(obj, sort_keys=True, separators=(",", ":"), default=str).encode()
    return hashlib.sha256(data).hexdigest()[:16]


def weighted(rng: random.Random, table):
    """ Pick from [(item, weight), ...] """
    total = sum(w for _, w in table)
    x = rng.random() * total
    acc = 0.0
    for item, w in table:
        acc += w
        if x < acc:
            return item
    return table[-1][0]
