""" The code that runs *inside* an interpreter started with a given PYTHONHASHSEED for the
    `hashseed` engine (C17).  Given a scenario and an identity-hash salt it executes the real
    antiSMASH stages and returns canonical text dumps of what they produced.

    Modes:
      batch:  python -m sim.engines.hashseed_child batch <prop> <seed> <runs> <jobs> <config index> <out dir>
      server: python -m sim.engines.hashseed_child server      (JSON lines on stdin/stdout)
"""

import hashlib
import json
import os
import sys
import traceback
from typing import Any, Dict, List


def _canon(obj: Any) -> str:
    return json.dumps(obj, indent=1, sort_keys=False, default=str)


# ---------------------------------------------------------------- stages

def stage_refine(sc: Dict[str, Any]) -> Dict[str, str]:
    from antismash.common.hmmscan_refinement import refine_hmmscan_results
    from sim.world.pipeline import FakeHSP, FakeQueryResult
    out = {}
    for mode in (True, False):
        by_cds: Dict[str, List[FakeHSP]] = {}
        order = []
        for hit in sc["hits"]:
            if hit["cds"] not in by_cds:
                by_cds[hit["cds"]] = []
                order.append(hit["cds"])
            by_cds[hit["cds"]].append(FakeHSP(query_id=hit["cds"], hit_id=hit["profile"], query_start=hit["start"],
                                              query_end=hit["end"], evalue=hit["evalue"], bitscore=hit["bitscore"],
                                              hit_start=0, hit_end=1))
        results = [FakeQueryResult(cds, cds, by_cds[cds]) for cds in order]
        refined = refine_hmmscan_results(results, dict(sc["lengths"]), neighbour_mode=mode)
        out[f"refine_neighbour={mode}"] = _canon([[cds, [hit.to_json() for hit in hits]]
                                                  for cds, hits in refined.items()])
    return out


def stage_hmmer_overlap(sc: Dict[str, Any]) -> Dict[str, str]:
    from antismash.common import hmmer
    hits = [hmmer.HmmerHit(location=f"[{h['start']}:{h['end']}]", label=h["label"], locus_tag=h["cds"],
                           domain=h["profile"], evalue=h["evalue"], score=h["bitscore"], identifier=h["profile"],
                           description="d", protein_start=h["start"], protein_end=h["end"],
                           translation="A" * (h["end"] - h["start"])) for h in sc["hits"]]
    kept = hmmer.remove_overlapping(hits, dict(sc["cutoffs"]), overlap_limit=sc.get("overlap_limit", 10))
    return {"hmmer_remove_overlapping": _canon([hit.to_json() for hit in kept])}


def stage_filter(sc: Dict[str, Any]) -> Dict[str, str]:
    from antismash.common.hmm_rule_parser import cluster_prediction
    from sim.world.pipeline import FakeHSP
    results = []
    by_id: Dict[str, List[FakeHSP]] = {}
    for hit in sc["hits"]:
        hsp = FakeHSP(query_id=hit["profile"], hit_id=hit["cds"], bitscore=hit["bitscore"], evalue=hit["evalue"],
                      hit_start=hit["start"], hit_end=hit["end"], query_start=1, query_end=50)
        results.append(hsp)
        by_id.setdefault(hit["cds"], []).append(hsp)
    groups = [set(group) for group in sc["equivalence_groups"]]
    results, by_id = cluster_prediction.filter_results(results, by_id, groups)
    first = _canon([[h.hit_id, h.query_id, h.bitscore, h.hit_start, h.hit_end] for h in results])
    results, by_id = cluster_prediction.filter_result_multiple(results, by_id)
    second = _canon({"results": [[h.hit_id, h.query_id, h.bitscore, h.hit_start, h.hit_end] for h in results],
                     "by_id": [[cds, [[h.query_id, h.bitscore, h.hit_start] for h in hits]]
                               for cds, hits in by_id.items()]})
    return {"filter_results": first, "filter_result_multiple": second}


def _record_dump(record: Any) -> Dict[str, str]:
    from antismash.common import json as as_json
    from antismash.common.serialiser import gather_record_areas
    from Bio import SeqIO
    from io import StringIO
    out = {}
    cands = []
    for cand in record.get_candidate_clusters():
        cands.append({"number": cand.get_candidate_cluster_number(), "location": str(cand.location),
                      "kind": str(cand.kind), "products": cand.products,
                      "protoclusters": [[p.get_protocluster_number(), p.product, str(p.location)]
                                        for p in cand.protoclusters]})
    out["candidates"] = _canon(cands)
    regions = []
    for region in record.get_regions():
        regions.append({"number": region.get_region_number(), "location": str(region.location),
                        "products": region.products, "product_string": region.get_product_string(),
                        "rules": region.detection_rules,
                        "unique_protoclusters": [[p.get_protocluster_number(), p.product]
                                                 for p in region.get_unique_protoclusters()],
                        "candidates": [c.get_candidate_cluster_number() for c in region.candidate_clusters],
                        "cds_children": [c.get_name() for c in region.cds_children]})
    out["regions"] = _canon(regions)
    out["areas_json"] = as_json.dumps(gather_record_areas(record))
    handle = StringIO()
    SeqIO.write([record.to_biopython()], handle, "genbank")
    out["genbank"] = handle.getvalue()
    return out


def stage_candidates(sc: Dict[str, Any]) -> Dict[str, str]:
    from sim.world.records import build_record
    spec = dict(sc["record"])
    spec["create"] = True
    record = build_record(spec)
    return _record_dump(record)


def stage_detect(sc: Dict[str, Any]) -> Dict[str, str]:
    """ rule based detection with a generated rule set whose profiles are dynamic profiles answering
        from the scenario's hit table, then the same steps as main.run_detection """
    from antismash.common import json as as_json
    from antismash.common.hmm_rule_parser import rule_parser
    from antismash.common.hmm_rule_parser.cluster_prediction import Ruleset, detect_protoclusters_and_signatures
    from antismash.common.hmm_rule_parser.structures import DynamicHit, DynamicProfile
    from sim.world.records import build_record
    record = build_record(dict(sc["record"], protos=[], subs=[], create=False))
    active = {"hits": sc["hits"]}

    def make_profile(name: str) -> DynamicProfile:
        def find_hits(rec: Any, _hmmer_hits: Any) -> Dict[str, List[DynamicHit]]:
            present = {cds.get_name() for cds in rec.get_cds_features()}
            found: Dict[str, List[DynamicHit]] = {}
            for hit in active["hits"]:
                if hit["profile"] == name and hit["cds"] in present:
                    found.setdefault(hit["cds"], []).append(DynamicHit(hit["cds"], name, bitscore=float(hit["bitscore"])))
            return found
        return DynamicProfile(name, f"simulated profile {name}", find_hits)
    profiles = {name: make_profile(name) for name in sc["profiles"]}
    rules = rule_parser.Parser(sc["rules"], set(profiles), set(sc["categories"])).rules
    ruleset = Ruleset(tuple(rules), {}, "unused", set(sc["categories"]), "rule-based-clusters",
                      dynamic_profiles=profiles, equivalence_groups=[])
    results = detect_protoclusters_and_signatures(record, ruleset)
    results.annotate_cds_features()
    out = {"detection_json": as_json.dumps(results.to_json(), indent=True)}
    for protocluster in results.protoclusters:
        record.add_protocluster(protocluster)
    record.create_candidate_clusters()
    record.create_regions()
    out["protoclusters"] = _canon([[p.get_protocluster_number(), str(p.location), str(p.core_location), p.product]
                                   for p in record.get_protoclusters()])
    out.update(_record_dump(record))
    return out


def _pipeline_probes(data: Dict[str, Any], sc: Dict[str, Any]) -> List[str]:
    """ which of the situations the pipeline scenarios are meant to produce this one did produce (reach probes
        of the batch; taken from the first schedule only, never compared) """
    found = set()
    spanning = {gene["name"] for record in sc["records"] for gene in record["genes"] if len(gene["parts"]) == 2}
    for record in data.get("records", []):
        modules = record.get("modules", {})
        areas = record.get("areas", [])
        if len(data.get("records", [])) > 1:
            found.add("multi_record_input")
        if any(area["start"] > area["end"] for area in areas):
            found.add("origin_crossing_region")
        if spanning and areas:
            found.add("origin_spanning_gene_with_regions")
        rules = modules.get("antismash.detection.hmm_detection", {}).get("rule_results", {})
        if len(rules.get("outside_protoclusters", [])) >= 2:
            found.add("genes_with_hits_outside_protoclusters")
        if any(len(cdses) >= 2 for by_cds in rules.get("cds_by_protocluster", []) for cdses in by_cds[1:]):
            found.add("protocluster_with_2_defining_genes")
        domains = modules.get("antismash.detection.nrps_pks_domains", {}).get("cds_results", {})
        if any(cds.get("modules") for cds in domains.values()):
            found.add("nrps_pks_modules")
        side = modules.get("antismash.detection.sideloader", {})
        if side.get("subregions") or side.get("protoclusters"):
            found.add("sideloaded_areas")
        for name in ("cluster_hmmer", "full_hmmer", "tigrfam"):
            if modules.get(f"antismash.detection.{name}", {}).get("hits"):
                found.add(f"{name}_hits")
        if modules.get("antismash.modules.pfam2go", {}).get("pfams"):
            found.add("pfam2go_terms")
        tools = modules.get("antismash.detection.genefunctions", {}).get("tools", {})
        if sum(1 for tool in tools.values() if tool.get("best_hits")) >= 2:
            found.add("gene_functions_from_2_tools")
        for prediction in modules.get("antismash.modules.t2pks", {}).get("protocluster_predictions", {}).values():
            found.add("t2pks_prediction")
            kinds = {pred[0] for preds in prediction.get("cds_preds", {}).values() for pred in preds}
            if prediction.get("mol_weights") and len(kinds - {"KS", "CLF", "ACP"}) >= 3:
                found.add("t2pks_weights_with_3_tailoring_kinds")
        terpene = json.dumps(modules.get("antismash.modules.terpene", {}))
        if '"subtypes": [' in terpene and any(len(pred.get("subtypes", [])) >= 2 for cluster in
                                              modules.get("antismash.modules.terpene", {}).get("protocluster_predictions", {}).values()
                                              for preds in cluster.get("cds_predictions", {}).values() for pred in preds):
            found.add("terpene_domain_with_2_subtypes")
        if modules.get("antismash.modules.rrefinder", {}).get("hits_by_cds"):
            found.add("rre_hits")
        if any(modules.get("antismash.modules.tfbs_finder", {}).get("hits_by_region", {}).values()):
            found.add("tfbs_hits")
        if modules.get("antismash.modules.tta", {}).get("TTA codons"):
            found.add("tta_codons")
    return sorted(found)


def stage_pipeline(sc: Dict[str, Any], salt: int) -> Dict[str, str]:
    from sim.world import pipeline as P
    work = P.scratch_dir("c17_")
    try:
        outdir = os.path.join(work, "out")
        infile = os.path.join(work, "input.gbk")
        P.write_genbank(infile, sc["records"])
        args = P.base_args(outdir) + list(sc.get("extra_args", [])) + list(sc.get("sideload_cli", []))
        if sc.get("sideload"):
            args += ["--sideload", P.write_sideload(work, sc["sideload"])]
        inv = {"args": args, "input": infile, "hits": sc["hits"], "domain_hits": sc.get("domain_hits", {}),
               "domain_lengths": sc.get("domain_lengths", {}), "salt": salt}
        result = P.invoke(inv)
        out = {"status": result["status"] + ("" if result["status"].startswith("exit") else
                                             ": " + result.get("error", ""))}
        if result["status"] == "harness-error":
            raise RuntimeError(result.get("traceback"))
        snap = P.snapshot(outdir, keep_content=True) if os.path.isdir(outdir) else {}
        out["file_list"] = _canon(sorted(snap))
        for name, entry in snap.items():
            if name.endswith(".zip"):
                continue   # zip members carry real mtimes
            # the scratch root differs between check invocations (never between the schedules of one batch)
            entry["content"] = entry["content"].replace(P.SCRATCH_ROOT, "<SCRATCH>")
            if name.endswith(".json"):
                data = json.loads(entry["content"])
                data.pop("timings", None)
                out[f"file:{name}"] = json.dumps(data, indent=1)
                out["_probes"] = json.dumps(_pipeline_probes(data, sc))
            else:
                out[f"file:{name}"] = entry["content"]
        return out
    finally:
        P.cleanup(work)


_LAYOUT: list = []
_SALT = [0]


def _perturb_layout(salt: int) -> None:
    """ "Any memory layout": the schedule also decides the state of the allocator the analysis starts from.
        Small objects of the sizes the analysis allocates most (lists, tuples, dicts, short strings) are created
        and part of them freed again, so the addresses handed out next - and which freed addresses get reused -
        differ between schedules while staying a pure function of the salt. """
    _LAYOUT.clear()
    _SALT[0] = salt
    if not salt:
        return
    count = 500 + salt % 3571
    junk = [([], (i, salt), {}, str(i) * (1 + i % 5)) for i in range(count)]
    step = 2 + salt % 3
    _LAYOUT.append([item for i, item in enumerate(junk) if i % step])
    del junk


def process(scenario: Dict[str, Any], salt: int) -> Dict[str, str]:
    """ stage name -> canonical text """
    from sim.world import idhash
    idhash.install(int(salt))
    _perturb_layout(int(salt))
    kind = scenario["kind"]
    if kind == "refine":
        return stage_refine(scenario)
    if kind == "hmmer_overlap":
        return stage_hmmer_overlap(scenario)
    if kind == "filter":
        return stage_filter(scenario)
    if kind == "candidates":
        return stage_candidates(scenario)
    if kind == "detect":
        return stage_detect(scenario)
    if kind == "pipeline":
        return stage_pipeline(scenario, int(salt))
    raise ValueError(f"unknown scenario kind {kind}")


def set_order_probe() -> str:
    """ how this interpreter iterates a fixed set of strings (evidence that hash seeds differ) """
    return ",".join({"T1PKS", "NRPS", "terpene", "lanthipeptide", "T3PKS", "PKS_KS", "PKS_AT"})


def digest(text: str) -> str:
    return hashlib.sha256(text.encode("utf-8", "replace")).hexdigest()[:16]


def safe_process(scenario: Dict[str, Any], salt: int) -> Dict[str, str]:
    try:
        return process(scenario, salt)
    except Exception:  # pylint: disable=broad-except
        tb = traceback.format_exc()
        last = tb.strip().splitlines()[-1]
        return {"exception": last, "_traceback": tb[-1500:]}


# ---------------------------------------------------------------- modes

def _batch_chunk(args: Any) -> List[Any]:
    prop, seed, indexes, cfg, config_index = args
    import logging
    logging.disable(logging.CRITICAL)
    from sim.core.prng import run_rng
    from sim.engines.hashseed import ENGINE
    out = []
    for i in indexes:
        scenario = ENGINE.generate(run_rng(prop, seed, i), cfg, prop)
        salt = scenario["salts"][config_index]
        texts = safe_process(scenario, salt)
        out.append([i, digest(json.dumps(scenario, sort_keys=True)), salt,
                    {name: digest(text) for name, text in texts.items() if not name.startswith("_")},
                    texts.get("_traceback"), texts.get("status"), json.loads(texts.get("_probes", "[]"))])
    return out


def batch_main(argv: List[str]) -> int:
    import concurrent.futures
    import multiprocessing
    prop, seed, runs, jobs, config_index, out_path = argv[0], int(argv[1]), int(argv[2]), int(argv[3]), int(argv[4]), argv[5]
    cfg = json.loads(os.environ.get("HASHSEED_CFG", "{}"))
    import antismash.main  # noqa: F401  pylint: disable=unused-import  (imported once, inherited by forked workers)
    chunk = max(1, min(40, runs // (jobs * 3) or 1))
    chunks = [(prop, seed, list(range(s, min(runs, s + chunk))), cfg, config_index) for s in range(0, runs, chunk)]
    results: List[Any] = []
    ctx = multiprocessing.get_context("fork")
    with concurrent.futures.ProcessPoolExecutor(max_workers=max(1, jobs), mp_context=ctx) as pool:
        for part in pool.map(_batch_chunk, chunks):
            results.extend(part)
    with open(out_path, "w", encoding="utf-8") as handle:
        json.dump({"hashseed": os.environ.get("PYTHONHASHSEED"), "set_order": set_order_probe(), "runs": results}, handle)
    return 0


def server_main() -> int:
    import logging
    logging.disable(logging.CRITICAL)
    for line in sys.stdin:
        line = line.strip()
        if not line:
            continue
        request = json.loads(line)
        texts = safe_process(request["scenario"], request["salt"])
        sys.stdout.write(json.dumps({"texts": texts, "set_order": set_order_probe()}) + "\n")
        sys.stdout.flush()
    return 0


if __name__ == "__main__":
    if sys.argv[1] == "batch":
        sys.exit(batch_main(sys.argv[2:]))
    sys.exit(server_main())
