""" Engine `record_history` (C06, C08): seeded histories of public Record operations
    (the interleaving of the pipeline actors that mutate the shared record),
    checked step by step against a bit-mask reference model.

    Real: antismash.common.secmet (Record, CDSFeature, Protocluster, SubRegion,
    CandidateCluster, Region, locations).  No stubs.
"""

import traceback
from typing import Any, Dict, Iterator, List, Optional, Tuple

from sim.core.engine import Engine, RunResult
from sim.core.prng import digest, weighted

PRODUCTS = ["T1PKS", "NRPS", "lanthipeptide-class-i"]

# ---------------------------------------------------------------- model helpers


def mask(parts: List[List[int]]) -> int:
    """ bit i set <=> base i covered """
    value = 0
    for start, end in parts:
        value |= ((1 << (end - start)) - 1) << start
    return value


def part_masks(parts: List[List[int]]) -> List[int]:
    return [mask([p]) for p in parts]


def contained(inner_parts: List[List[int]], outer_parts: List[List[int]]) -> bool:
    """ every part of inner lies inside one part of outer """
    outers = part_masks(outer_parts)
    for part in part_masks(inner_parts):
        if not any(part & ~outer == 0 for outer in outers):
            return False
    return True


def shares_base(a_parts: List[List[int]], b_parts: List[List[int]]) -> bool:
    return bool(mask(a_parts) & mask(b_parts))


def loc_parts(location) -> List[List[int]]:
    """ parts of a real location, as plain ints """
    return [[int(p.start), int(p.end)] for p in location.parts]


def crosses(parts: List[List[int]]) -> bool:
    """ model notion of 'area crossing the origin': two parts, second starts at 0 """
    return len(parts) == 2 and parts[1][0] == 0 and parts[0][0] > 0


def is_single_arc(parts: List[List[int]], length: int) -> bool:
    if len(parts) == 1:
        return True
    return len(parts) == 2 and parts[1][0] == 0 and parts[0][1] == length


def sort_key(parts: List[List[int]], strand: int, length: int) -> Tuple[int, int]:
    """ (start, len) with the code's convention for origin crossing features:
        their start is the (negative) distance of the upper section from the end """
    total = sum(e - s for s, e in parts)
    ordered = parts if strand != -1 else list(reversed(parts))
    # forward biological order: ascending starts unless it wraps
    wraps = any(ordered[i][0] > ordered[i + 1][0] for i in range(len(ordered) - 1))
    if wraps:
        # upper section = the run of parts before the wrap
        upper = []
        for i, part in enumerate(ordered):
            if upper and part[0] < upper[-1][0]:
                break
            upper.append(part)
        start = min(p[0] for p in upper) - max(p[1] for p in upper)
        return (start, total)
    return (min(p[0] for p in parts), total)


# ---------------------------------------------------------------- the engine

class RecordHistory(Engine):
    name = "record_history"
    properties = ("C06", "C08")
    real_components = ["antismash.common.secmet.record.Record", "secmet.features.* (CDSFeature, Protocluster, "
                       "SubRegion, CandidateCluster, Region, CDSCollection)", "secmet.locations",
                       "candidate_cluster.formation.create_candidates_from_protoclusters"]
    stub_components = ["none (sequence content is a constant string; translations are constant)"]
    rule = ("one run = one seeded history of 5-45 public Record operations (add_cds_feature, add_protocluster, "
            "add_subregion, create_candidate_clusters, create_regions, clear_*, strip_antismash_annotations, "
            "get_cds_features_within_location) on a linear or circular record of 30-400 bases, tie-rich layouts; "
            "all invariants are re-checked against a bit-mask reference model after every operation. "
            "non-trivial = the history reached a state with >=1 region and >=2 genes, or performed a lookup over >=3 "
            "genes; distinct = digest of the sequence of (op kind, model-state digest)")
    assumptions = [
        "the reference model's notion of containment is part-wise (every part of the gene inside one part of the "
        "area), which is the repository's documented is_contained_by semantics",
        "operations are generated only from the public Record API and only in orders the API permits "
        "(create_* is not called while features of that kind already exist)",
        "exceptions from operations other than region creation end the history and are reported as aborted, "
        "not as violations",
    ]

    def tier_config(self, prop: str, tier: str) -> Dict[str, Any]:
        if tier == "quick":
            return {"runs": 40000, "deadline_s": 150, "shrink_s": 40, "max_ops": 40, "level": "exploration",
                    "expected_probes": EXPECTED_PROBES}
        return {"runs": 1500000, "deadline_s": 3000, "shrink_s": 120, "max_ops": 60, "level": "exploration",
                "expected_probes": EXPECTED_PROBES}

    def prepare(self, prop: str, cfg: Dict[str, Any]) -> None:
        _imports()

    # ------------------------------------------------------------ generation
    def generate(self, rng, cfg: Dict[str, Any], prop: str) -> Dict[str, Any]:
        length = weighted(rng, [(rng.randint(30, 60), 3), (rng.randint(60, 150), 4), (rng.randint(150, 400), 2)])
        circular = rng.random() < 0.55
        grid = rng.choice([1, 2, 3, 5, 10])
        n_ops = rng.randint(5, int(cfg.get("max_ops", 40)))
        # swarm: per-run op weights
        weights = {
            "add_gene": rng.choice([4, 8, 12]),
            "add_proto": rng.choice([1, 3, 5]),
            "add_sub": rng.choice([0, 1, 3]),
            "create_cands": rng.choice([1, 2]),
            "create_regions": rng.choice([1, 2, 3]),
            "clear_protos": rng.choice([0, 0.3, 1]),
            "clear_cands": rng.choice([0, 0.3, 1]),
            "clear_subs": rng.choice([0, 0.3, 1]),
            "clear_regions": rng.choice([0, 0.3, 1]),
            "strip": rng.choice([0, 0, 0.3]),
            "lookup": rng.choice([1, 3, 6]),
            "readd": rng.choice([0, 0.5, 1.5]),
            "roundtrip": rng.choice([0, 0, 0.4, 1]),
            "add_region": rng.choice([0, 0, 0.5, 1.5]),
        }
        table = sorted(weights.items())
        origin_bias = rng.choice([0.0, 0.2, 0.5]) if circular else 0.0
        starts: List[int] = []

        def coord(lo: int, hi: int) -> int:
            lo = max(lo, 0)
            hi = min(hi, length)
            if hi <= lo:
                return lo
            value = rng.randint(lo, hi)
            value -= value % grid
            return min(max(value, lo), hi)

        def simple(min_len: int, max_len: int) -> List[List[int]]:
            size = rng.randint(min_len, max(min_len, min(max_len, length)))
            if starts and rng.random() < 0.3:
                start = rng.choice(starts)
            else:
                start = coord(0, length - size)
            start = max(0, min(start, length - size))
            starts.append(start)
            return [[start, start + size]]

        def wrapping(min_len: int, max_len: int) -> List[List[int]]:
            """ [s, L) + [0, e) with e <= s """
            upper = rng.randint(1, max(1, min(max_len, length // 2 - 1)))
            lower = rng.randint(1, max(1, min(max_len, length // 2 - 1)))
            if upper + lower < min_len:
                upper = min_len
            start = length - upper
            if start <= lower:
                return simple(min_len, max_len)
            return [[start, length], [0, lower]]

        def gene_parts() -> Tuple[List[List[int]], int]:
            strand = rng.choice([1, -1])
            roll = rng.random()
            if circular and roll < origin_bias * 0.5:
                parts = wrapping(3, 40)
                if len(parts) == 2 and strand == -1:
                    parts = [parts[1], parts[0]]
                return parts, strand
            if roll > 0.9 and length >= 40:
                # multi-exon, inside a window
                window = simple(12, 60)[0]
                cuts = sorted(rng.sample(range(window[0] + 1, window[1]), min(3, window[1] - window[0] - 1)))
                exons = []
                pos = window[0]
                for i, cut in enumerate(cuts):
                    if i % 2 == 0 and cut - pos >= 1:
                        exons.append([pos, cut])
                    pos = cut
                if not exons or sum(e - s for s, e in exons) < 3:
                    exons = [window]
                if strand == -1:
                    exons.reverse()
                return exons, strand
            return simple(3, rng.choice([9, 30, 90])), strand

        def area_parts(min_len: int, max_len: int) -> List[List[int]]:
            roll = rng.random()
            if circular and roll < origin_bias:
                return wrapping(min_len, max_len)
            if roll > 0.97:
                return [[0, length]]
            return simple(min_len, max_len)

        def extend(parts: List[List[int]], dist: int) -> List[List[int]]:
            """ surrounding location of a core """
            covered = sum(e - s for s, e in parts)
            if circular and covered + 2 * dist >= length:
                return [[0, length]]
            if crosses(parts):
                start = parts[0][0] - dist
                end = parts[1][1] + dist
                if end >= start:
                    return [[0, length]]
                return [[start, length], [0, end]]
            start, end = parts[0][0] - dist, parts[-1][1] + dist
            if not circular:
                return [[max(0, start), min(length, end)]]
            if start < 0 and end > length:
                return [[0, length]]
            if start < 0:
                if start + length <= end:
                    return [[0, length]]
                return [[start + length, length], [0, end]]
            if end > length:
                if end - length >= start:
                    return [[0, length]]
                return [[start, length], [0, end - length]]
            return [[start, end]]

        ops: List[Dict[str, Any]] = []
        counter = {"g": 0, "p": 0, "s": 0}
        names: List[str] = []
        if circular and length >= 40 and rng.random() < 0.25:
            # a chain of areas around the origin: one crossing it, others overlapping its two arms
            # (possibly several at the end of the record), and some unrelated ones
            upper = rng.randint(1, length // 3)
            lower = rng.randint(1, length // 3)
            chain = [[[length - upper, length], [0, lower]]]
            for _ in range(rng.randint(1, 3)):
                if rng.random() < 0.5:     # overlaps the post-origin arm, reaching far into the record
                    start = rng.randint(0, max(0, lower - 1))
                    chain.append([[start, min(length, start + rng.randint(2, max(2, length - lower)))]])
                else:                      # overlaps the pre-origin arm
                    end = rng.randint(length - upper + 1, length)
                    chain.append([[max(0, end - rng.randint(2, max(2, length // 2))), end]])
            for _ in range(rng.randint(0, 2)):
                chain.append(simple(2, 12))
            rng.shuffle(chain)
            for loc in chain:
                counter["s"] += 1
                ops.append({"op": "add_sub", "id": f"s{counter['s']}", "loc": loc})
            if rng.random() < 0.5:
                # regions for these areas supplied one by one (as when a file with region features is read):
                # overlapping ones must be refused wherever they sort
                for _ in range(rng.randint(2, 4)):
                    ops.append({"op": "add_region", "pick": rng.randrange(1 << 20)})
        for _ in range(n_ops):
            kind = weighted(rng, table)
            if kind == "add_gene":
                parts, strand = gene_parts()
                counter["g"] += 1
                name = f"g{counter['g']}"
                if names and rng.random() < 0.05:
                    name = rng.choice(names)  # duplicate name: rejected or renamed
                names.append(name)
                cores = [p for p in PRODUCTS if rng.random() < 0.25]
                ops.append({"op": kind, "name": name, "parts": parts, "strand": strand, "cores": cores})
            elif kind == "add_proto":
                core = area_parts(3, rng.choice([10, 40, 120]))
                if core == [[0, length]]:
                    core = simple(3, 30)
                counter["p"] += 1
                surrounding = extend(core, rng.choice([0, 3, 10, 30]))
                if crosses(core) and not crosses(surrounding):
                    surrounding = [list(p) for p in core]  # constructor precondition of Protocluster
                ops.append({"op": kind, "id": f"p{counter['p']}", "core": core,
                            "loc": surrounding,
                            "product": rng.choice(PRODUCTS), "cutoff": rng.choice([0, 5, 20])})
            elif kind == "add_sub":
                counter["s"] += 1
                # labels from a tiny set, locations tie-rich: subregions equal in every attribute do occur
                ops.append({"op": kind, "id": f"s{counter['s']}", "loc": area_parts(3, rng.choice([10, 40, 120])),
                            "label": rng.choice(["", "lbl", "lbl"])})
            elif kind == "lookup":
                parts = area_parts(1, rng.choice([10, 40, 150]))
                ops.append({"op": kind, "loc": parts, "overlap": rng.random() < 0.5})
            elif kind == "add_region":
                ops.append({"op": kind, "pick": rng.randrange(1 << 20)})
            elif kind == "readd":
                # only subregions: a protocluster object keeps its defining genes from its earlier life, which
                # says nothing about the record it is added to again (the pipeline always adds fresh objects)
                known = [f"s{i}" for i in range(1, counter["s"] + 1)]
                if known:
                    ops.append({"op": kind, "id": rng.choice(known)})
            else:
                ops.append({"op": kind})
        return {"length": length, "circular": circular, "ops": ops, "finalise": rng.random() < 0.7,
                "salt": rng.choice([0, rng.randrange(1, 1 << 30)])}

    # ------------------------------------------------------------ execution
    def execute(self, scenario: Dict[str, Any], prop: str) -> RunResult:
        _imports()
        return _Execution(scenario).run()

    def shrink_candidates(self, scenario: Dict[str, Any]) -> Iterator[Dict[str, Any]]:
        import copy
        if scenario.get("finalise"):
            cand = copy.deepcopy(scenario)
            cand["finalise"] = False
            yield cand
        if scenario.get("circular"):
            if not any(len(op.get(k, [])) == 2 and crosses(op[k]) for op in scenario["ops"] for k in ("loc", "core", "parts")):
                cand = copy.deepcopy(scenario)
                cand["circular"] = False
                yield cand
        for i, op in enumerate(scenario["ops"]):
            if op.get("cores"):
                cand = copy.deepcopy(scenario)
                cand["ops"][i]["cores"] = []
                yield cand
            if op["op"] == "add_gene" and op["strand"] == -1 and len(op["parts"]) == 1:
                cand = copy.deepcopy(scenario)
                cand["ops"][i]["strand"] = 1
                yield cand
            if op["op"] == "add_proto" and op["loc"] != op["core"]:
                cand = copy.deepcopy(scenario)
                cand["ops"][i]["loc"] = copy.deepcopy(op["core"])
                yield cand
        # shrink record length if nothing reaches the end
        top = 0
        for op in scenario["ops"]:
            for key in ("loc", "core", "parts"):
                for part in op.get(key, []):
                    top = max(top, part[1])
        if not scenario.get("circular") and 0 < top < scenario["length"]:
            cand = copy.deepcopy(scenario)
            cand["length"] = top
            yield cand

    def sample_view(self, scenario: Dict[str, Any], result: RunResult) -> Any:
        return {"length": scenario["length"], "circular": scenario["circular"],
                "ops": [_op_str(op) for op in scenario["ops"]], "finalise": scenario.get("finalise"),
                "probes": result["probes"]}


EXPECTED_PROBES = [
    "gene_added_after_regions", "nested_genes_same_start", "origin_spanning_gene", "origin_spanning_area",
    "origin_area_overlaps_2", "region_covers_whole_record", "clear_create_cycle_2", "region_created",
    "implicit_region_recreation", "lookup_compound", "lookup_overlap_hits_origin_gene", "multi_region",
    "region_with_2_members", "op_rejected", "gene_renamed", "definition_cds", "multi_exon_gene",
    "area_readded_after_clear", "identical_subregions", "record_read_back", "region_added_directly", "direct_region_rejected",
]


def _op_str(op: Dict[str, Any]) -> str:
    kind = op["op"]
    if kind == "add_gene":
        return f"add_gene {op['name']} {op['parts']} strand={op['strand']} cores={op['cores']}"
    if kind == "add_proto":
        return f"add_proto {op['id']} core={op['core']} loc={op['loc']} {op['product']}"
    if kind == "add_sub":
        return f"add_sub {op['id']} {op['loc']}"
    if kind == "lookup":
        return f"lookup {op['loc']} overlap={op['overlap']}"
    if kind == "readd":
        return f"readd {op['id']}"
    if kind == "add_region":
        return f"add_region (subregions picked by {op['pick']})"
    return kind


_MODS: Dict[str, Any] = {}


def _imports() -> None:
    if _MODS:
        return
    from antismash.common.secmet import Record
    from antismash.common.secmet.features import CDSFeature, Protocluster, SubRegion
    from antismash.common.secmet.locations import CompoundLocation, FeatureLocation
    from antismash.common.secmet.qualifiers.gene_functions import GeneFunction
    from antismash.common.secmet.errors import SecmetInvalidInputError
    _MODS.update(Record=Record, CDSFeature=CDSFeature, Protocluster=Protocluster, SubRegion=SubRegion,
                 CompoundLocation=CompoundLocation, FeatureLocation=FeatureLocation, GeneFunction=GeneFunction,
                 SecmetInvalidInputError=SecmetInvalidInputError)


def make_location(parts: List[List[int]], strand: int = 1):
    FL, CL = _MODS["FeatureLocation"], _MODS["CompoundLocation"]
    if len(parts) == 1:
        return FL(parts[0][0], parts[0][1], strand)
    return CL([FL(s, e, strand) for s, e in parts])


class _Execution:
    """ Interprets one scenario against a real Record and the model """

    def __init__(self, scenario: Dict[str, Any]) -> None:
        # the record is shared mutable state hashed by identity: pin the identity-hash seam so that one
        # scenario is one exactly repeatable execution whatever the memory layout of this process
        from sim.world import idhash
        idhash.install(int(scenario.get("salt", 0)))
        self.sc = scenario
        self.length = int(scenario["length"])
        self.circular = bool(scenario["circular"])
        self.result = RunResult()
        self.record = self._new_record()
        # model
        self.genes: Dict[str, Dict[str, Any]] = {}     # current name -> {"parts", "strand", "cores", "obj"}
        self.protos: Dict[str, Dict[str, Any]] = {}    # id -> {"core", "loc", "product", "obj"}
        self.subs: Dict[str, Dict[str, Any]] = {}
        self.trace: List[Any] = []
        self.region_cycles = 0
        self.step = -1
        self.max_regions = 0
        self.ever_in_record: Dict[int, Any] = {}
        self.removed: Dict[str, Dict[str, Any]] = {}   # id -> spec of protoclusters / subregions taken out by clear_*

    def _new_record(self):
        annotations = {"molecule_type": "DNA", "topology": "circular" if self.circular else "linear"}
        record = _MODS["Record"]("A" * self.length, id="sim", name="sim", annotations=annotations)
        return record

    # ---------- helpers
    def _names(self, features) -> List[str]:
        return [f.get_name() for f in features]

    def _area_id(self, area) -> str:
        for key, spec in self.protos.items():
            if spec["obj"] is area:
                return key
        for key, spec in self.subs.items():
            if spec["obj"] is area:
                return key
        return f"?{type(area).__name__}{loc_parts(area.location)}"

    def violate(self, clause: str, detail: str, sig: str) -> None:
        self.result.violate(clause, f"step {self.step} ({_op_str(self.sc['ops'][self.step]) if 0 <= self.step < len(self.sc['ops']) else 'final'}): {detail}",
                            sig=f"{clause}:{sig}", step=self.step)

    # ---------- run
    def run(self) -> RunResult:
        res = self.result
        ops = self.sc["ops"]
        for self.step, op in enumerate(ops):
            outcome = self._apply(op)
            if outcome == "abort":
                break
            self._check_all(op, region_creation=(outcome == "regions_created"))
            self.trace.append([op["op"], outcome, self._state_digest()])
            if res["violations"]:
                break
        else:
            self.step = len(ops)
            if self.sc.get("finalise") and not res["violations"]:
                self._finalise()
        res["steps"] = len(self.trace)
        res["digest"] = digest(self.trace)
        res["sig"] = digest([(t[0], t[2]) for t in self.trace])
        res["states"] = sorted({t[2] for t in self.trace})
        res["nontrivial"] = bool((self.max_regions >= 1 and len(self.genes) >= 2) or res["probes"].get("lookup_3plus"))
        return res

    def _state_digest(self) -> str:
        rec = self.record
        state = [
            self.length, self.circular,
            sorted((n, g["parts"], g["strand"]) for n, g in self.genes.items()),
            sorted((k, p["loc"], p["core"], p["product"]) for k, p in self.protos.items()),
            sorted((k, s["loc"]) for k, s in self.subs.items()),
            [loc_parts(c.location) for c in rec.get_candidate_clusters()],
            [loc_parts(r.location) for r in rec.get_regions()],
        ]
        return digest(state)[:12]

    # ---------- ops
    def _apply(self, op: Dict[str, Any]) -> str:
        rec = self.record
        kind = op["op"]
        res = self.result
        had_regions = bool(rec.get_regions())
        try:
            if kind == "add_gene":
                return self._add_gene(op)
            if kind == "add_proto":
                proto = _MODS["Protocluster"](make_location(op["core"]), make_location(op["loc"]), tool="sim",
                                              product=op["product"], cutoff=op["cutoff"],
                                              neighbourhood_range=0, detection_rule="sim-rule")
                rec.add_protocluster(proto)
                self.protos[op["id"]] = {"core": op["core"], "loc": op["loc"], "product": op["product"],
                                         "obj": proto, "cutoff": op["cutoff"]}
                if crosses(op["loc"]):
                    res.probe("origin_spanning_area")
                return "ok"
            if kind == "add_sub":
                sub = _MODS["SubRegion"](make_location(op["loc"]), tool="sim", label=op.get("label", op["id"]))
                rec.add_subregion(sub)
                self.subs[op["id"]] = {"loc": op["loc"], "obj": sub, "label": op.get("label", op["id"])}
                if any(spec["loc"] == op["loc"] and spec["label"] == self.subs[op["id"]]["label"]
                       for key, spec in self.subs.items() if key != op["id"]):
                    res.probe("identical_subregions")
                if crosses(op["loc"]):
                    res.probe("origin_spanning_area")
                return "ok"
            if kind == "create_cands":
                if rec.get_candidate_clusters():
                    return "skipped"
                rec.create_candidate_clusters()
                return "ok"
            if kind == "create_regions":
                if rec.get_regions():
                    return "skipped"
                rec.create_regions()
                self.region_cycles += 1
                if self.region_cycles >= 2:
                    res.probe("clear_create_cycle_2")
                return "regions_created"
            if kind in ("clear_protos", "clear_cands", "clear_subs", "clear_regions", "strip"):
                self.before_clear = (list(rec.get_protoclusters()) + list(rec.get_candidate_clusters())
                                     + list(rec.get_subregions()))
            if kind == "roundtrip":
                # the record is written out as GenBank features and read back: areas that start before a gene are
                # in the new record before that gene is added, the order an annotated file is loaded in
                bio = rec.to_biopython()
                try:
                    new = _MODS["Record"].from_biopython(bio, taxon="bacteria")
                except Exception as err:  # pylint: disable=broad-except
                    # the features were written by the record itself; if the numbers on them identify the features
                    # they stand for, reading them back rebuilds the same areas and regions
                    self.violate("C06-a", "the record could not be rebuilt from the features (and the numbers shown on "
                                 f"them) that it wrote itself: {type(err).__name__}: {err}",
                                 sig=f"read-back-raised:{type(err).__name__}:{str(err)[:30]}")
                    return "abort"
                # every region refers to its children by number: the same children have to come back
                old_cands, new_cands = list(rec.get_candidate_clusters()), list(new.get_candidate_clusters())
                structure = []
                for regions, cands, subs in ((rec.get_regions(), old_cands, list(rec.get_subregions())),
                                             (new.get_regions(), new_cands, list(new.get_subregions()))):
                    structure.append([(sorted(next(i for i, c in enumerate(cands) if c is child) for child in region.candidate_clusters),
                                       sorted(next(i for i, c in enumerate(subs) if c is child) for child in region.subregions))
                                      for region in regions])
                if structure[0] != structure[1]:
                    self.violate("C06-a", "after writing the record out and reading it back, regions refer to other children "
                                 f"(0-based indices of candidate clusters, subregions per region): written {structure[0]}, "
                                 f"read back {structure[1]}", sig="read-back-other-children")
                    return "abort"
                old_protos, new_protos = list(rec.get_protoclusters()), list(new.get_protoclusters())
                old_subs, new_subs = list(rec.get_subregions()), list(new.get_subregions())
                if len(old_protos) != len(new_protos) or len(old_subs) != len(new_subs) \
                        or sorted(self._names(new.get_cds_features())) != sorted(self.genes):
                    self.result["aborted"] = {"op": kind, "error": "features-lost-in-round-trip"}
                    return "abort"
                for spec in self.protos.values():
                    spec["obj"] = new_protos[next(i for i, p in enumerate(old_protos) if p is spec["obj"])]
                for spec in self.subs.values():
                    spec["obj"] = new_subs[next(i for i, s in enumerate(old_subs) if s is spec["obj"])]
                for name, gene in self.genes.items():
                    gene["obj"] = new.get_cds_by_name(name)
                self.removed.clear()
                self.record = new
                res.probe("record_read_back")
                return "ok"     # regions are rebuilt as they were, not created anew
            if kind == "add_region":
                pool = [spec["obj"] for key, spec in sorted(self.subs.items())]
                if not pool:
                    return "skipped"
                picker = __import__("random").Random(f"region:{op['pick']}")
                chosen = picker.sample(pool, min(len(pool), picker.choice([1, 1, 2])))
                from antismash.common.secmet.features import Region
                previous_parents = [(sub, sub.parent) for sub in chosen]
                region = Region(subregions=chosen)
                new_mask = mask(loc_parts(region.location))
                clash = any(new_mask & mask(loc_parts(r.location)) for r in rec.get_regions())
                before = list(rec.get_regions())
                try:
                    rec.add_region(region)
                    accepted = True
                except ValueError:
                    accepted = False
                if not accepted:
                    for sub, parent in previous_parents:     # the rejected region must not stay anybody's parent
                        sub.parent = parent
                res.probe("region_added_directly" if accepted else "direct_region_rejected")
                if clash and accepted:
                    self.violate("C06-c", f"add_region accepted a region {loc_parts(region.location)} that overlaps an "
                                 f"existing region ({[loc_parts(r.location) for r in before]})",
                                 sig="add_region-accepted-overlap")
                    return "abort"
                if not clash and not accepted:
                    self.violate("C06-c", f"add_region refused a region {loc_parts(region.location)} that overlaps no "
                                 f"existing region ({[loc_parts(r.location) for r in before]})",
                                 sig="add_region-spurious-refusal")
                    return "abort"
                return "ok"
            if kind == "readd":
                spec = self.removed.pop(op["id"], None)
                if spec is None:
                    return "skipped"
                # the very object that a clear_* call took out of the record is added again
                if "core" in spec:
                    rec.add_protocluster(spec["obj"])
                    self.protos[op["id"]] = spec
                else:
                    rec.add_subregion(spec["obj"])
                    self.subs[op["id"]] = spec
                res.probe("area_readded_after_clear")
                return "ok"
            if kind == "clear_protos":
                rec.clear_protoclusters()
                self.removed.update(self.protos)
                self.protos.clear()
            elif kind == "clear_cands":
                rec.clear_candidate_clusters()
            elif kind == "clear_subs":
                rec.clear_subregions()
                self.removed.update(self.subs)
                self.subs.clear()
            elif kind == "clear_regions":
                rec.clear_regions()
                return "ok"
            elif kind == "strip":
                rec.strip_antismash_annotations()
                self.removed.update(self.protos)
                self.removed.update(self.subs)
                self.protos.clear()
                self.subs.clear()
                for gene in self.genes.values():
                    gene["cores"] = []
                return "ok"
            elif kind == "lookup":
                return self._lookup(op)
            else:
                raise ValueError(f"unknown op {kind}")
            # the clear_* ops that recreate regions when regions existed
            if had_regions:
                res.probe("implicit_region_recreation")
                self.region_cycles += 1
                return "regions_created"
            return "ok"
        except Exception as err:  # pylint: disable=broad-except
            frames = [f.name for f in traceback.extract_tb(err.__traceback__)]
            if "create_regions" in frames:
                site = [f for f in frames if f not in ("_apply", "run")]
                self.violate("C06-c", f"region creation raised {type(err).__name__}: {err}",
                             sig=f"create_regions-raised:{type(err).__name__}:{str(err)[:40]}")
                self.trace.append([kind, f"raised-in-create_regions:{type(err).__name__}", "-"])
                return "abort"
            self.result["aborted"] = {"op": kind, "error": f"{type(err).__name__}", "msg": str(err)[:200],
                                      "where": frames[-2:]}
            self.trace.append([kind, f"aborted:{type(err).__name__}", "-"])
            return "abort"

    def _add_gene(self, op: Dict[str, Any]) -> str:
        rec = self.record
        res = self.result
        size = sum(e - s for s, e in op["parts"])
        cds = _MODS["CDSFeature"](make_location(op["parts"], op["strand"]), translation="M" * max(1, size // 3),
                                  locus_tag=op["name"])
        for product in op["cores"]:
            cds.gene_functions.add(_MODS["GeneFunction"].CORE, "sim", "sim core", product=product)
        before = self._names(rec.get_cds_features())
        try:
            rec.add_cds_feature(cds)
        except (_MODS["SecmetInvalidInputError"], ValueError) as err:
            res.probe("op_rejected")
            if self._names(rec.get_cds_features()) != before:
                self.result["aborted"] = {"op": "add_gene", "error": "rejected-but-modified", "msg": str(err)[:100]}
                return "abort"
            return "rejected"
        name = cds.get_name()
        if name != op["name"]:
            res.probe("gene_renamed")
        if rec.get_regions():
            res.probe("gene_added_after_regions")
        if len(op["parts"]) > 1:
            if cds.crosses_origin():
                res.probe("origin_spanning_gene")
            else:
                res.probe("multi_exon_gene")
        for other in self.genes.values():
            if min(p[0] for p in other["parts"]) == min(p[0] for p in op["parts"]):
                res.probe("nested_genes_same_start")
                break
        self.genes[name] = {"parts": op["parts"], "strand": op["strand"], "cores": list(op["cores"]), "obj": cds}
        return "ok"

    def _lookup(self, op: Dict[str, Any]) -> str:
        rec = self.record
        res = self.result
        location = make_location(op["loc"])
        found = rec.get_cds_features_within_location(location, with_overlapping=op["overlap"])
        names = self._names(found)
        expected = []
        for name, gene in self.genes.items():
            if contained(gene["parts"], op["loc"]) or (op["overlap"] and shares_base(gene["parts"], op["loc"])):
                expected.append(name)
        if len(op["loc"]) > 1:
            res.probe("lookup_compound")
        if len(self.genes) >= 3:
            res.probe("lookup_3plus")
        if op["overlap"] and any(self.genes[n]["obj"].crosses_origin() for n in expected):
            res.probe("lookup_overlap_hits_origin_gene")
        missing = sorted(set(expected) - set(names))
        extra = sorted(set(names) - set(expected))
        mode = "overlapping" if op["overlap"] else "contained"
        shape = "compound" if len(op["loc"]) > 1 else "simple"
        if missing:
            kinds = sorted({self._gene_shape(n) for n in missing})
            self.violate("C08-b", f"lookup {op['loc']} ({mode}) misses {missing} "
                         f"(genes: {self._gene_table()}); returned {names}",
                         sig=f"lookup-missing:{mode}:{shape}:{','.join(kinds)}")
        elif extra:
            self.violate("C08-b", f"lookup {op['loc']} ({mode}) returns {extra} which are not {mode} "
                         f"(genes: {self._gene_table()})", sig=f"lookup-extra:{mode}:{shape}")
        elif len(set(names)) != len(names):
            self.violate("C08-b", f"lookup {op['loc']} returns duplicates: {names}", sig=f"lookup-dup:{mode}:{shape}")
        elif len(op["loc"]) == 1:
            # genes crossing the origin have no single position relative to the query, so the
            # order is asserted among the others only
            plain = [n for n in names if not self.genes[n]["obj"].crosses_origin()]
            order = [self._names(rec.get_cds_features()).index(n) for n in plain]
            if order != sorted(order) or not self._in_location_order(plain):
                self.violate("C08-b", f"lookup {op['loc']} result not in location order: "
                             f"{[(n, self.genes[n]['parts']) for n in names]}", sig=f"lookup-order:{mode}")
        return f"found:{len(names)}"

    def _in_location_order(self, names: List[str]) -> bool:
        """ location order by the model: starts never decrease, and genes that start together and have a single
            part come shortest first (the order of other ties is not asserted) """
        previous_start = -1
        previous_simple_end = -1
        for name in names:
            parts = self.genes[name]["parts"]
            start = min(p[0] for p in parts)
            if start < previous_start:
                return False
            if start > previous_start:
                previous_simple_end = -1
            if len(parts) == 1:
                if parts[0][1] < previous_simple_end:
                    return False
                previous_simple_end = parts[0][1]
            previous_start = start
        return True

    def _gene_shape(self, name: str) -> str:
        gene = self.genes[name]
        if gene["obj"].crosses_origin():
            return "origin-gene"
        if len(gene["parts"]) > 1:
            return "multi-exon"
        return "simple-gene"

    def _gene_table(self) -> str:
        return "; ".join(f"{n}{g['parts']}{'+' if g['strand'] == 1 else '-'}" for n, g in sorted(self.genes.items()))

    # ---------- invariants
    def _check_all(self, op: Dict[str, Any], region_creation: bool) -> None:
        rec = self.record
        res = self.result
        genes = self.genes
        gene_objs = rec.get_cds_features()
        # the model and the record agree on which genes exist (harness sanity, not a clause)
        if sorted(self._names(gene_objs)) != sorted(genes):
            res["aborted"] = {"op": op["op"], "error": "model-desync", "msg": "gene sets differ"}
            return
        protos = rec.get_protoclusters()
        cands = rec.get_candidate_clusters()
        subs = rec.get_subregions()
        regions = rec.get_regions()
        self.max_regions = max(self.max_regions, len(regions))
        if len(regions) >= 2:
            res.probe("multi_region")

        for feature in list(cands) + list(regions):
            self.ever_in_record[id(feature)] = feature  # keeps the object alive, so ids stay unique
        # ---- C08-b: the sorted gene list every lookup relies on
        if op["op"] in ("add_gene", "roundtrip", "finalise"):
            plain = [g.get_name() for g in gene_objs if not g.crosses_origin()]
            if not self._in_location_order(plain):
                self.violate("C08-b", f"the record's genes are not in location order after {op['op']}: "
                             f"{[(n, genes[n]['parts']) for n in plain]}", sig="gene-list-order")
                return
        # ---- C08-a membership
        for kind, areas in (("protocluster", protos), ("candidate", cands), ("subregion", subs), ("region", regions)):
            for area in areas:
                parts = loc_parts(area.location)
                expected = sorted(n for n, g in genes.items() if contained(g["parts"], parts))
                children = area.cds_children
                actual = sorted(self._names(children))
                if actual != expected:
                    missing = sorted(set(expected) - set(actual))
                    extra = sorted(set(actual) - set(expected))
                    when = "gene-added-later" if op["op"] == "add_gene" else "area-added-later"
                    self.violate("C08-a", f"{kind} {parts} lists genes {actual}, model says {expected} "
                                 f"(missing {missing}, extra {extra}; genes: {self._gene_table()})",
                                 sig=f"membership:{kind}:{when}:{'missing' if missing else 'extra'}")
                    return
        for proto in protos:
            core = loc_parts(proto.core_location)
            expected = sorted(n for n, g in genes.items()
                              if contained(g["parts"], core) and proto.product in g["cores"]
                              and contained(g["parts"], loc_parts(proto.location)))
            actual = sorted(self._names(proto.definition_cdses))
            if expected:
                res.probe("definition_cds")
            if actual != expected:
                self.violate("C08-a", f"protocluster core {core} product {proto.product}: definition genes {actual}, "
                             f"model says {expected} (genes: {self._gene_table()})", sig="definition_cdses")
                return
        region_parts = [loc_parts(r.location) for r in regions]
        for name, gene in genes.items():
            holders = [i for i, parts in enumerate(region_parts) if contained(gene["parts"], parts)]
            actual = gene["obj"].region
            if len(holders) > 1:
                continue  # overlapping regions: reported by C06-c
            expected_region = regions[holders[0]] if holders else None
            if actual is not expected_region:
                self.violate("C08-a", f"gene {name}{gene['parts']} .region is "
                             f"{loc_parts(actual.location) if actual is not None else None}, model says "
                             f"{loc_parts(expected_region.location) if expected_region is not None else None}",
                             sig=f"cds.region:{'stale' if actual is not None and actual not in regions else 'wrong'}")
                return

        # the record-level view of the same fact: the genes within regions (asked after every step, as the
        # per-area analyses do between other actors' additions)
        if region_parts and not any(len([i for i, parts in enumerate(region_parts) if contained(g["parts"], parts)]) > 1
                                    for g in genes.values()):
            expected = sorted(n for n, g in genes.items() if any(contained(g["parts"], parts) for parts in region_parts))
            listed = self._names(rec.get_cds_features_within_regions())
            if sorted(listed) != expected:
                self.violate("C08-a", f"get_cds_features_within_regions() lists {sorted(listed)}, the regions "
                             f"{region_parts} contain {expected} (after {op['op']})",
                             sig=f"within-regions:{'missing' if set(expected) - set(listed) else 'extra'}")
                return
        # ---- C06-a numbering
        getters = (
            ("protocluster", protos, rec.get_protocluster, rec.get_protocluster_number,
             lambda x: x.get_protocluster_number()),
            ("candidate", cands, rec.get_candidate_cluster, rec.get_candidate_cluster_number,
             lambda x: x.get_candidate_cluster_number()),
            ("subregion", subs, rec.get_subregion, rec.get_subregion_number, lambda x: x.get_subregion_number()),
            ("region", regions, rec.get_region, rec.get_region_number, lambda x: x.get_region_number()),
        )
        for kind, areas, by_number, number_of, own_number in getters:
            previous = None
            previous_head = None
            for i, area in enumerate(areas):
                try:
                    number = number_of(area)
                    own = own_number(area)
                    back = by_number(number) if 1 <= number <= len(areas) else None
                except Exception as err:  # pylint: disable=broad-except
                    self.violate("C06-a", f"{kind} #{i + 1} {loc_parts(area.location)}: numbering lookup raised "
                                 f"{type(err).__name__}: {err}", sig=f"numbering-raise:{kind}")
                    return
                if number != i + 1 or own != number or back is not area:
                    self.violate("C06-a", f"{kind} at list position {i + 1} {loc_parts(area.location)} has number "
                                 f"{number} (own {own}); get_{kind}({number}) is "
                                 f"{'the same feature' if back is area else 'another feature'}",
                                 sig=f"numbering:{kind}")
                    return
                parts = loc_parts(area.location)
                if not crosses(parts) and len(parts) == 1:
                    if previous is not None and parts[0][0] < previous:
                        self.violate("C06-a", f"{kind} list not in location order: "
                                     f"{[loc_parts(a.location) for a in areas]}", sig=f"order:{kind}")
                        return
                    previous = parts[0][0]
                elif crosses(parts) and len(parts) == 2:
                    # areas over the origin are ordered by where they start before the origin (an area containing
                    # another starts no later than it, so the containment rule cannot reverse this)
                    head = max(part[0] for part in parts)
                    if previous_head is not None and head < previous_head:
                        self.violate("C06-a", f"{kind} list not in location order (areas over the origin are ordered by "
                                     f"their start before the origin): {[loc_parts(a.location) for a in areas]}",
                                     sig=f"order-over-origin:{kind}")
                        return
                    previous_head = head
        # numbers shown on parents identify their members
        for cand in cands:
            for proto in cand.protoclusters:
                if not any(proto is p for p in protos):
                    self.violate("C06-b", f"candidate cluster {loc_parts(cand.location)} refers to a protocluster "
                                 f"{loc_parts(proto.location)} that is no longer in the record", sig="stale-child:cand")
                    return
        for region in regions:
            for cand in region.candidate_clusters:
                if not any(cand is c for c in cands):
                    self.violate("C06-b", f"region {loc_parts(region.location)} refers to a candidate cluster "
                                 f"{loc_parts(cand.location)} that is no longer in the record",
                                 sig="stale-child:region-cand")
                    return
            for sub in region.subregions:
                if not any(sub is s for s in subs):
                    self.violate("C06-b", f"region {loc_parts(region.location)} refers to a subregion "
                                 f"{loc_parts(sub.location)} that is no longer in the record",
                                 sig="stale-child:region-sub")
                    return

        # ---- C06-b parent links
        # a parent link is stale when it points to a feature that was in the record at some
        # earlier step and is not any more (temporary candidates that formation builds and
        # discards were never in the record and are not covered by the statement)
        for kind, areas, parents in (("protocluster", protos, cands), ("candidate", cands, regions),
                                     ("subregion", subs, regions)):
            for area in areas:
                parent = area.parent
                if parent is not None and not any(parent is p for p in parents):
                    if id(parent) not in self.ever_in_record:
                        res.probe("parent_is_discarded_temporary")
                        continue
                    self.violate("C06-b", f"{kind} {loc_parts(area.location)} has a parent "
                                 f"{type(parent).__name__} {loc_parts(parent.location)} that is not in the record "
                                 f"after {op['op']}", sig=f"stale-parent:{kind}:{op['op']}")
                    return
        # areas that the clear_* call of this step took out of the record must not keep a link either
        if op["op"] in ("clear_protos", "clear_cands", "clear_subs", "clear_regions", "strip"):
            live = {id(a) for a in list(protos) + list(cands) + list(subs)}
            for area in getattr(self, "before_clear", []):
                if id(area) in live or area.parent is None:
                    continue
                if id(area.parent) not in self.ever_in_record:
                    continue
                self.violate("C06-b", f"{type(area).__name__} {loc_parts(area.location)} was removed by {op['op']} but still "
                             f"has a parent {type(area.parent).__name__} {loc_parts(area.parent.location)}",
                             sig=f"removed-keeps-parent:{type(area).__name__}:{op['op']}")
                return
        # ---- C06-a: the numbers *shown* on features (GenBank qualifiers) identify the features they stand for
        if region_creation or op["op"] in ("roundtrip", "finalise", "add_proto", "add_sub"):
            if not self._check_shown_numbers(protos, cands, subs, regions):
                return
        # ---- C06-c
        if region_creation:
            self._check_regions(op)

    def _check_shown_numbers(self, protos: Any, cands: Any, subs: Any, regions: Any) -> bool:
        rec = self.record

        def shown(feature: Any, key: str) -> List[int]:
            return [int(value) for value in feature.to_biopython()[0].qualifiers.get(key, [])]
        try:
            for proto in protos:
                numbers = shown(proto, "protocluster_number")
                if len(numbers) != 1 or rec.get_protocluster(numbers[0]) is not proto:
                    self.violate("C06-a", f"protocluster {loc_parts(proto.location)} shows number {numbers}, which is "
                                 "not this protocluster", sig="shown-number:protocluster")
                    return False
            for sub in subs:
                numbers = shown(sub, "subregion_number")
                if len(numbers) != 1 or rec.get_subregion(numbers[0]) is not sub:
                    self.violate("C06-a", f"subregion {loc_parts(sub.location)} shows number {numbers}, which is not "
                                 "this subregion", sig="shown-number:subregion")
                    return False
            for cand in cands:
                numbers = shown(cand, "candidate_cluster_number")
                members = shown(cand, "protoclusters")
                if len(numbers) != 1 or rec.get_candidate_cluster(numbers[0]) is not cand:
                    self.violate("C06-a", f"candidate cluster {loc_parts(cand.location)} shows number {numbers}, which "
                                 "is not this candidate cluster", sig="shown-number:candidate")
                    return False
                actual = list(cand.protoclusters)
                if len(members) != len(actual) or any(not 1 <= n <= len(protos) or protos[n - 1] is not p
                                                      for n, p in zip(members, actual)):
                    self.violate("C06-a", f"candidate cluster {loc_parts(cand.location)} shows protocluster numbers "
                                 f"{members}, which do not identify its protoclusters "
                                 f"{[loc_parts(p.location) for p in actual]}", sig="shown-number:candidate-members")
                    return False
            for region in regions:
                numbers = shown(region, "region_number")
                if len(numbers) != 1 or rec.get_region(numbers[0]) is not region:
                    self.violate("C06-a", f"region {loc_parts(region.location)} shows number {numbers}, which is not "
                                 "this region", sig="shown-number:region")
                    return False
                for key, actual, pool in (("candidate_cluster_numbers", list(region.candidate_clusters), cands),
                                          ("subregion_numbers", list(region.subregions), subs)):
                    members = shown(region, key)
                    if len(members) != len(actual) or any(not 1 <= n <= len(pool) or pool[n - 1] is not a
                                                          for n, a in zip(members, actual)):
                        self.violate("C06-a", f"region {loc_parts(region.location)} shows {key} {members}, which do not "
                                     f"identify its members {[loc_parts(a.location) for a in actual]}",
                                     sig=f"shown-number:region-{key}")
                        return False
        except ValueError:
            # a member that is no longer in the record cannot show a number: that is C06-b's business
            return True
        return True

    def _check_regions(self, op: Dict[str, Any]) -> None:
        rec = self.record
        res = self.result
        regions = rec.get_regions()
        cands = rec.get_candidate_clusters()
        subs = rec.get_subregions()
        areas = list(cands) + list(subs)
        res.probe("region_created", len(regions))
        if not areas:
            if regions:
                self.violate("C06-c", "regions exist without any area", sig="regions-without-areas")
            return
        masks = [mask(loc_parts(a.location)) for a in areas]
        # union-find over the 'shares a base' relation
        parent = list(range(len(areas)))

        def find(x: int) -> int:
            while parent[x] != x:
                parent[x] = parent[parent[x]]
                x = parent[x]
            return x

        for i in range(len(areas)):
            for j in range(i + 1, len(areas)):
                if masks[i] & masks[j]:
                    parent[find(i)] = find(j)
        full = (1 << self.length) - 1
        for i, area in enumerate(areas):
            if crosses(loc_parts(area.location)):
                others = sum(1 for j in range(len(areas)) if j != i and masks[i] & masks[j])
                if others >= 2:
                    res.probe("origin_area_overlaps_2")
        owner: Dict[int, int] = {}
        for r_index, region in enumerate(regions):
            members = list(region.candidate_clusters) + list(region.subregions)
            if len(members) >= 2:
                res.probe("region_with_2_members")
            for member in members:
                idx = next((k for k, a in enumerate(areas) if a is member), None)
                if idx is None:
                    continue  # stale member: C06-b
                if idx in owner:
                    self.violate("C06-c", f"area {loc_parts(member.location)} is in two regions", sig="area-in-two-regions")
                    return
                owner[idx] = r_index
        layout = f"areas: {[loc_parts(a.location) for a in areas]} regions: {[loc_parts(r.location) for r in regions]}"
        for idx, area in enumerate(areas):
            if idx not in owner:
                self.violate("C06-c", f"area {loc_parts(area.location)} is in no region ({layout})", sig="area-in-no-region")
                return
        for i in range(len(areas)):
            for j in range(i + 1, len(areas)):
                same_component = find(i) == find(j)
                same_region = owner[i] == owner[j]
                if same_component and not same_region:
                    self.violate("C06-c", f"areas {loc_parts(areas[i].location)} and {loc_parts(areas[j].location)} "
                                 f"are linked by overlaps but lie in different regions ({layout})",
                                 sig="component-split")
                    return
                if same_region and not same_component:
                    self.violate("C06-c", f"areas {loc_parts(areas[i].location)} and {loc_parts(areas[j].location)} "
                                 f"share a region without a chain of overlaps ({layout})", sig="components-merged")
                    return
        region_masks = [mask(loc_parts(r.location)) for r in regions]
        for i in range(len(regions)):
            for j in range(i + 1, len(regions)):
                if region_masks[i] & region_masks[j]:
                    self.violate("C06-c", f"regions overlap ({layout})", sig="regions-overlap")
                    return
        for r_index, region in enumerate(regions):
            parts = loc_parts(region.location)
            union = 0
            for idx, own in owner.items():
                if own == r_index:
                    union |= masks[idx]
            if union & ~region_masks[r_index]:
                self.violate("C06-c", f"region {parts} does not cover its members ({layout})", sig="region-not-covering")
                return
            if not is_single_arc(parts, self.length):
                self.violate("C06-c", f"region {parts} is not a single arc ({layout})", sig="region-not-arc")
                return
            if region_masks[r_index] == full:
                res.probe("region_covers_whole_record")
            # on a ring the connecting span may legitimately be longer than the union (C04 allows
            # any covering arc not longer than the linear hull), so exactness is asserted on lines only
            if region_masks[r_index] != union and not self.circular:
                self.violate("C06-c", f"region {parts} is larger than the span of its connected members ({layout})",
                             sig="region-larger-than-component")
                return

    # ---------- final: build-order independence
    def _dump(self, record, proto_ids, sub_ids) -> Dict[str, Any]:
        def names(features):
            return sorted(f.get_name() for f in features)
        out: Dict[str, Any] = {}
        out["protoclusters"] = sorted(
            [proto_ids.get(id(p), "?"), loc_parts(p.location), names(p.cds_children), names(p.definition_cdses)]
            for p in record.get_protoclusters())
        out["subregions"] = sorted([sub_ids.get(id(s), "?"), names(s.cds_children)] for s in record.get_subregions())
        out["candidates"] = sorted(
            [loc_parts(c.location), sorted(proto_ids.get(id(p), "?") for p in c.protoclusters), names(c.cds_children)]
            for c in record.get_candidate_clusters())
        out["regions"] = [
            [record.get_region_number(r), loc_parts(r.location),
             sorted(sub_ids.get(id(s), "?") for s in r.subregions),
             sorted(loc_parts(c.location) for c in r.candidate_clusters), names(r.cds_children)]
            for r in record.get_regions()]
        out["gene_region"] = sorted([g.get_name(), loc_parts(g.region.location) if g.region else None]
                                    for g in record.get_cds_features())
        return out

    def _finalise(self) -> None:
        rec = self.record
        try:
            rec.clear_candidate_clusters()
            rec.clear_regions()
            rec.create_candidate_clusters()
            rec.create_regions()
        except Exception as err:  # pylint: disable=broad-except
            frames = [f.name for f in traceback.extract_tb(err.__traceback__)]
            if "create_regions" in frames:
                self.violate("C06-c", f"region creation raised {type(err).__name__}: {err}",
                             sig=f"create_regions-raised:{type(err).__name__}:{str(err)[:40]}")
            else:
                self.result["aborted"] = {"op": "finalise", "error": type(err).__name__, "msg": str(err)[:200]}
            return
        self._check_all({"op": "finalise"}, region_creation=True)
        if self.result["violations"]:
            return
        proto_ids = {id(spec["obj"]): key for key, spec in self.protos.items()}
        sub_ids = {id(spec["obj"]): key for key, spec in self.subs.items()}
        history_dump = self._dump(rec, proto_ids, sub_ids)
        # canonical rebuild: genes first, in location order, then areas, then create
        fresh = self._new_record()
        try:
            new_proto_ids, new_sub_ids = {}, {}
            for name, gene in sorted(self.genes.items(), key=lambda kv: (min(p[0] for p in kv[1]["parts"]), kv[0])):
                size = sum(e - s for s, e in gene["parts"])
                cds = _MODS["CDSFeature"](make_location(gene["parts"], gene["strand"]),
                                          translation="M" * max(1, size // 3), locus_tag=name)
                for product in gene["cores"]:
                    cds.gene_functions.add(_MODS["GeneFunction"].CORE, "sim", "sim core", product=product)
                fresh.add_cds_feature(cds)
            for key, spec in sorted(self.protos.items()):
                proto = _MODS["Protocluster"](make_location(spec["core"]), make_location(spec["loc"]), tool="sim",
                                              product=spec["product"], cutoff=spec["cutoff"],
                                              neighbourhood_range=0, detection_rule="sim-rule")
                fresh.add_protocluster(proto)
                new_proto_ids[id(proto)] = key
            for key, spec in sorted(self.subs.items()):
                sub = _MODS["SubRegion"](make_location(spec["loc"]), tool="sim", label=spec.get("label", key))
                fresh.add_subregion(sub)
                new_sub_ids[id(sub)] = key
            fresh.create_candidate_clusters()
            fresh.create_regions()
        except Exception as err:  # pylint: disable=broad-except
            self.result["aborted"] = {"op": "rebuild", "error": type(err).__name__, "msg": str(err)[:200]}
            return
        fresh_dump = self._dump(fresh, new_proto_ids, new_sub_ids)
        self.result.probe("rebuild_compared")
        if history_dump != fresh_dump:
            diff = [key for key in history_dump if history_dump[key] != fresh_dump[key]]
            self.violate("C08-c", f"build order changes the result: {diff} differ; history={ {k: history_dump[k] for k in diff} } "
                         f"canonical={ {k: fresh_dump[k] for k in diff} }", sig=f"build-order:{','.join(diff)}")


ENGINE = RecordHistory()
