""" Engine `pool` (C18): antismash.common.subprocessing.parallel_function (and its user
    record_processing.pre_process_sequences) under a simulated worker pool whose
    schedule, timing and faults come from the scenario, plus a gated real-pool leg.
"""

import copy
import json
import math
import os
import sys
import traceback
from typing import Any, Dict, Iterator, List, Optional, Tuple

from sim.core.engine import Engine, RunResult
from sim.core.prng import digest, weighted
from sim.world import simpool

PRODUCTS = ["T1PKS", "NRPS", "lanthipeptide-class-i"]
SEQ_ALPHABETS = ["ACGT", "ACGTN", "ACGTacgtnN-", "ACGTRYKMSW-", "N-", "NNNN-"]


def _gen_record_spec(rng, index: int, with_genes: Optional[bool] = None) -> Dict[str, Any]:
    length = rng.choice([30, 60, 90, 150, 240])
    circular = rng.random() < 0.5
    alphabet = rng.choice(SEQ_ALPHABETS)
    seq = "".join(rng.choice(alphabet) for _ in range(length))
    spec: Dict[str, Any] = {"id": f"rec{index}", "seq": seq, "circular": circular,
                            "description": rng.choice(["", "a record", "x" * 30]),
                            "genes": [], "protos": [], "subs": [], "create": False,
                            "skip": None, "original_id": rng.choice([None, None, f"orig{index}"]),
                            "record_index": rng.choice([None, index + 1]),
                            "annotations": rng.choice([{}, {"organism": "Sim sim"}, {"taxonomy": ["a", "b"]}])}
    if with_genes is None:
        with_genes = rng.random() < 0.8
    if with_genes:
        used = set()
        for g in range(rng.randint(1, 6)):
            size = rng.choice([3, 6, 9, 12, 21])
            start = rng.randrange(0, length - size)
            if circular and rng.random() < 0.25:
                upper = rng.randint(2, 9)
                lower = rng.randint(1, 9)
                parts = [[length - upper, length], [0, lower]]
                strand = rng.choice([1, -1])
                if strand == -1:
                    parts.reverse()
            else:
                parts = [[start, start + size]]
                strand = rng.choice([1, -1])
            key = str(parts)
            if key in used:
                continue
            used.add(key)
            spec["genes"].append({"name": f"r{index}g{g}", "parts": parts, "strand": strand,
                                  "cores": [p for p in PRODUCTS if rng.random() < 0.3]})
            if len(parts) == 1 and rng.random() < 0.12:
                # a partial gene as at the edge of a contig: open first and / or last coordinate
                spec["genes"][-1]["fuzzy"] = rng.choice(["<", ">", "<>"])
        for _ in range(rng.randint(0, 3)):
            if circular and rng.random() < 0.4:
                upper = rng.randint(2, length // 3)
                lower = rng.randint(2, length // 3)
                loc = [[length - upper, length], [0, lower]]
            else:
                start = rng.randrange(0, length - 10)
                loc = [[start, min(length, start + rng.randint(6, 60))]]
            if len(loc) == 2:
                # make sure genes sit in each section of an origin-spanning area
                for parts in ([[loc[0][0], loc[0][0] + 3]] if loc[0][1] - loc[0][0] >= 3 else [],
                              [[0, 3]] if loc[1][1] >= 3 else [],
                              [[length - 2, length], [0, 1]] if loc[1][1] >= 1 and loc[0][1] - loc[0][0] >= 2 else []):
                    if parts and str(parts) not in used and rng.random() < 0.8:
                        used.add(str(parts))
                        spec["genes"].append({"name": f"r{index}o{len(spec['genes'])}", "parts": parts, "strand": 1,
                                              "cores": []})
            if rng.random() < 0.6:
                spec["protos"].append({"core": loc, "loc": loc, "product": rng.choice(PRODUCTS), "cutoff": 5})
            else:
                spec["subs"].append({"loc": loc, "label": "sub"})
        spec["create"] = rng.random() < 0.7
        if rng.random() < 0.4:
            # the areas exist before the genes, which then arrive in file order (origin-crossing gene first)
            spec["build_order"] = "areas_first"
            spec["genes"].sort(key=lambda g: (0 if len(g["parts"]) > 1 else 1, min(p[0] for p in g["parts"])))
    return spec


class PoolEngine(Engine):
    name = "pool"
    properties = ("C18",)
    real_components = ["antismash.common.subprocessing.base.parallel_function / parallel_execute",
                       "antismash.common.record_processing.pre_process_sequences, sanitise_sequence, ensure_cds_info",
                       "secmet Record and features (real pickle round trip of every task and result)",
                       "multiprocessing.Pool with forked workers (gated real-pool leg)"]
    stub_components = ["multiprocessing.Pool -> sim.world.simpool.SimPool in the simulated leg (model of CPython 3.12 pool)",
                       "gene finding module -> deterministic ORF stub", "wall clock -> simulated clock"]
    rule = ("one run = one batch (generic calls, Record batches through sanitise/identity/touch functions, or the whole "
            "pre_process_sequences stage) executed through parallel_function with k in 1..16 workers under a seeded "
            "schedule (per-task durations => completion order), with faults (task raises, worker killed mid-chunk, "
            "stalled worker, unpicklable argument/result, timeouts) and compared with the sequential in-process "
            "reference. non-trivial = k > 1 and (chunks completed out of submission order or a fault fired); "
            "distinct = digest of (workload, k, n, completion order, faults fired, outcome class)")
    assumptions = [
        "SimPool reproduces CPython 3.12 multiprocessing.pool semantics (chunking, first-failure-to-arrive, lost chunks, "
        "MaybeEncodingError, TimeoutError); cross-checked by the gated real-pool leg",
        "simulated workers share interpreter globals with the parent, as forked workers do at fork time",
        "any exception counts as 'surfaces as an error'; its class is not asserted",
    ]

    def tier_config(self, prop: str, tier: str) -> Dict[str, Any]:
        if tier == "quick":
            return {"runs": 24000, "deadline_s": 150, "shrink_s": 40, "max_n": 70, "level": "exploration",
                    "real_runs": 96, "expected_probes": EXPECTED_PROBES}
        return {"runs": 600000, "deadline_s": 3000, "shrink_s": 120, "max_n": 200, "level": "exploration",
                "real_runs": 1600, "allow_hang": True, "expected_probes": EXPECTED_PROBES}

    def prepare(self, prop: str, cfg: Dict[str, Any]) -> None:
        _imports()

    # ------------------------------------------------------------ generation
    def generate(self, rng, cfg: Dict[str, Any], prop: str) -> Dict[str, Any]:
        real = rng.random() < float(cfg.get("real_runs", 0)) / max(1, int(cfg["runs"]))
        workload = weighted(rng, [("generic", 6), ("records", 3), ("preprocess", 0 if real else 2),
                                  ("pipeline", 0 if real else float(cfg.get("pipeline_weight", 0.07)))])
        if workload == "pipeline":
            return self._gen_pipeline(rng)
        if rng.random() < 0.08 and not real:
            workload = "execute"
        cpus = weighted(rng, [(1, 1), (2, 2), (3, 2), (4, 2), (rng.randint(5, 16), 4)])
        max_n = int(cfg.get("max_n", 70))
        sizes = [0, 1, max(cpus - 1, 0), cpus, cpus + 1, 4 * cpus, 4 * cpus + 1, rng.randint(2, max_n)]
        n = min(max_n, rng.choice(sizes))
        shape = rng.choice(["constant", "uniform", "bimodal", "decreasing", "increasing"])

        def duration(i: int) -> int:
            if shape == "constant":
                return 5
            if shape == "uniform":
                return rng.randint(1, 40)
            if shape == "bimodal":
                return rng.choice([1, 1, 1, 200])
            if shape == "decreasing":
                return max(1, 100 - 3 * i + rng.randint(0, 2))
            return 1 + 3 * i
        enabled = set()
        if rng.random() < 0.6:
            for kind, prob in (("raise", 0.5), ("unpicklable_result", 0.2), ("unpicklable_arg", 0.2), ("kill", 0.3),
                               ("stall", 0.3), ("timeout", 0.5)):
                if rng.random() < prob:
                    enabled.add(kind)
        timeout: Optional[float] = None
        if "timeout" in enabled or "kill" in enabled or "stall" in enabled:
            if "timeout" in enabled or not cfg.get("allow_hang") or rng.random() < 0.9:
                timeout = rng.choice([0.0005, 0.005, 0.05, 0.5, 5.0, 50.0]) + 0.00037
        scenario: Dict[str, Any] = {"workload": workload, "cpus": cpus, "timeout": timeout, "leg": "sim",
                                    "cpus_via_config": rng.random() < 0.15,
                                    "args_form": rng.choice(["list", "generator", "tuples", "iterator"]),
                                    "followup": rng.choice([0, 0, 3, 9])}
        tasks: List[Dict[str, Any]] = []
        if workload == "generic":
            for i in range(n):
                task: Dict[str, Any] = {"i": i, "payload": rng.choice([None, i * 7, "s" * (i % 5), [i, [i]], {"a": i}]),
                                        "extra": [rng.choice([0, "x", [1, 2], None]) for _ in range(rng.randint(0, 3))],
                                        "ms": duration(i)}
                if "raise" in enabled and rng.random() < 0.15:
                    task["raise"] = rng.choice(["ValueError", "KeyError", "RuntimeError", "Boom", "ZeroDivisionError",
                                                "StopIteration", "OSError", "FileNotFoundError", "BrokenPipeError"]
                                               + (["BadInit"] if timeout is not None else []))
                if "unpicklable_result" in enabled and rng.random() < 0.1:
                    task["unpicklable_result"] = True
                if "unpicklable_arg" in enabled and rng.random() < 0.1:
                    task["unpicklable_arg"] = True
                if "kill" in enabled and rng.random() < 0.1:
                    task["kill"] = True
                if "stall" in enabled and rng.random() < 0.1:
                    task["stall"] = True
                if rng.random() < 0.1 and task["extra"] and isinstance(task["extra"][0], list):
                    task["mutate_arg"] = True
                tasks.append(task)
        elif workload == "execute":
            # parallel_execute: external commands (a fake Popen answers) whose return codes come back in order
            scenario["verbose"] = rng.random() < 0.5
            for i in range(min(n, 40)):
                task = {"i": i, "rc": rng.choice([0, 0, 0, 1, 2, 137]), "stderr": rng.choice(["", "", "warning\n"]),
                        "ms": duration(i)}
                if "raise" in enabled and rng.random() < 0.1:
                    task["raise"] = "OSError"
                if "kill" in enabled and rng.random() < 0.1:
                    task["kill"] = True
                if "stall" in enabled and rng.random() < 0.1:
                    task["stall"] = True
                tasks.append(task)
        elif workload == "records":
            scenario["func"] = rng.choice(["sanitise", "identity", "touch"])
            n = min(n, 24)
            for i in range(n):
                task = {"i": i, "spec": _gen_record_spec(rng, i), "ms": duration(i), "warm": rng.random() < 0.7}
                if "kill" in enabled and rng.random() < 0.1:
                    task["kill"] = True
                if "stall" in enabled and rng.random() < 0.1:
                    task["stall"] = True
                tasks.append(task)
        else:
            n = max(1, min(n, 12))
            scenario["timeout"] = None
            scenario["options"] = {"minlength": rng.choice([0, 0, 50]), "limit": rng.choice([-1, -1, 2]),
                                   "genefinding_tool": rng.choice(["prodigal", "none"]),
                                   "allow_long_headers": rng.random() < 0.5}
            if rng.random() < 0.04:
                # one single record of a megabase (such inputs may get special treatment): its last gene ends on
                # the last base, the length is no multiple of most worker counts
                total = 1_000_000 + rng.randint(1, 15)
                block = "".join(rng.choice("ACGT") for _ in range(1000))
                spec = _gen_record_spec(rng, 0, with_genes=False)
                spec.update({"seq": "", "seq_repeat": {"block": block, "times": 1000, "tail": block[:total - 1_000_000]},
                             "circular": False, "protos": [], "subs": [], "create": False, "original_id": None,
                             "record_index": None,
                             "genes": [{"name": "first", "parts": [[30, 330]], "strand": 1, "cores": []},
                                       {"name": "last", "parts": [[total - 300, total]], "strand": 1, "cores": []}]})
                scenario["tasks"] = [{"i": 0, "spec": spec, "ms": duration(0), "ms2": duration(1)}]
                scenario["options"]["genefinding_tool"] = "none"
                return scenario
            dup = rng.random() < 0.3
            long_family = rng.choice([None, None, "mygenome_assembly_v{i}_contig7", "NZ_AMZN01000079.{i}",
                                      "scaffold12_of_assembly_number_{i}"])
            for i in range(n):
                spec = _gen_record_spec(rng, i, with_genes=rng.random() < 0.6)
                spec["protos"], spec["subs"], spec["create"] = [], [], False
                spec["original_id"] = None
                spec["record_index"] = None
                if dup and i and rng.random() < 0.5:
                    spec["id"] = "rec0"
                if rng.random() < 0.1:
                    spec["id"] = "a_very_long_record_identifier_" + "z" * 20 + str(i)
                elif long_family and rng.random() < 0.6:
                    # identifiers over 16 characters that all shorten to the same name: each one is renamed with
                    # the names already handed out in mind
                    spec["id"] = long_family.format(i=i)
                if not spec["genes"] and rng.random() < 0.12:
                    spec["id"] = f"rec{i}" + rng.choice(["bad", "bad", "nobin"])          # gene finding fails on this one
                    spec["seq"] = "".join(rng.choice("ACGT") for _ in spec["seq"])
                tasks.append({"i": i, "spec": spec, "ms": duration(i), "ms2": duration(n - i)})
        scenario["tasks"] = tasks
        if real:
            scenario["leg"] = "real"
            scenario["timeout"] = None
            scenario["cpus_via_config"] = False
            scenario["order_seed"] = rng.randrange(1 << 30)
            scenario["cpus"] = max(2, cpus)
            for task in tasks:
                task.pop("kill", None)
                task.pop("stall", None)
                task.pop("unpicklable_arg", None)   # such a chunk never starts, so it could not take its turn
                if task.get("raise") == "BadInit":  # would wedge the real pool for the whole real-time timeout
                    task["raise"] = "ValueError"
        return scenario

    def _gen_pipeline(self, rng) -> Dict[str, Any]:
        """ the whole run_antismash on a multi-record input at --cpus k (simulated pool) vs --cpus 1 """
        from sim.engines.hashseed import ENGINE as HASHSEED
        merged: Dict[str, Any] = {"records": [], "hits": [], "domain_hits": {}, "domain_lengths": {}}
        for index in range(rng.randint(2, 5)):
            part = HASHSEED._gen_pipeline(rng)   # pylint: disable=protected-access
            for record in part["records"][:1]:
                record = dict(record, id=f"REC{index}" if rng.random() < 0.8 else "REC0")   # duplicate ids happen
                prefix = f"n{index}"
                rename = {gene["name"]: prefix + gene["name"] for gene in record["genes"]}
                record["genes"] = [dict(gene, name=rename[gene["name"]]) for gene in record["genes"]]
                if rng.random() < 0.15:
                    record["genes"] = []        # no genes and no gene finding: the record is skipped
                if rng.random() < 0.2:
                    record["seq"] = record["seq"].lower().replace("a", "-", 3)
                merged["records"].append(record)
                merged["hits"] += [dict(hit, cds=rename[hit["cds"]]) for hit in part["hits"] if hit["cds"] in rename]
                for key, table in part["domain_hits"].items():
                    merged["domain_hits"].setdefault(key, [])
                    merged["domain_hits"][key] += [dict(hit, cds=rename[hit["cds"]]) for hit in table if hit["cds"] in rename]
                merged["domain_lengths"].update(part["domain_lengths"])
        count = len(merged["records"])
        return {"workload": "pipeline", "leg": "sim", "cpus": rng.randint(2, 16), "timeout": None, "followup": 0,
                "cpus_via_config": False, "args_form": "list", "pipeline": merged,
                "tasks": [{"i": i, "ms": rng.choice([1, 5, 50, 200]), "ms2": rng.choice([1, 5, 50, 200])}
                          for i in range(count)]}

    def ops_key(self) -> Optional[str]:
        return "tasks"

    def shrink_candidates(self, scenario: Dict[str, Any]) -> Iterator[Dict[str, Any]]:
        if scenario.get("followup"):
            cand = copy.deepcopy(scenario)
            cand["followup"] = 0
            yield cand
        if scenario["cpus"] > 2:
            cand = copy.deepcopy(scenario)
            cand["cpus"] = scenario["cpus"] - 1
            yield cand
            cand = copy.deepcopy(scenario)
            cand["cpus"] = 2
            yield cand
        if scenario.get("cpus_via_config"):
            cand = copy.deepcopy(scenario)
            cand["cpus_via_config"] = False
            yield cand
        if scenario.get("args_form") != "list":
            cand = copy.deepcopy(scenario)
            cand["args_form"] = "list"
            yield cand
        for i, task in enumerate(scenario["tasks"]):
            for key in ("raise", "unpicklable_result", "unpicklable_arg", "kill", "stall", "mutate_arg"):
                if task.get(key):
                    cand = copy.deepcopy(scenario)
                    del cand["tasks"][i][key]
                    yield cand
            if task.get("ms", 1) != 1:
                cand = copy.deepcopy(scenario)
                cand["tasks"][i]["ms"] = 1
                yield cand
            if task.get("extra"):
                cand = copy.deepcopy(scenario)
                cand["tasks"][i]["extra"] = []
                yield cand
            spec = task.get("spec")
            if spec:
                for key in ("genes", "protos", "subs"):
                    for j in range(len(spec.get(key, []))):
                        cand = copy.deepcopy(scenario)
                        del cand["tasks"][i]["spec"][key][j]
                        yield cand

    def sample_view(self, scenario: Dict[str, Any], result: RunResult) -> Any:
        view = {k: v for k, v in scenario.items() if k not in ("tasks", "pipeline")}
        if "pipeline" in scenario:
            view["records"] = [[r["id"], len(r["seq"]), len(r["genes"])] for r in scenario["pipeline"]["records"]]
        view["n_tasks"] = len(scenario["tasks"])
        view["tasks_head"] = [{k: (v if k != "spec" else {"id": v["id"], "len": len(v["seq"]), "genes": len(v["genes"])})
                               for k, v in t.items()} for t in scenario["tasks"][:4]]
        view["trace"] = result.get("trace_head")
        view["probes"] = result["probes"]
        return view

    # ------------------------------------------------------------ execution
    def execute(self, scenario: Dict[str, Any], prop: str) -> RunResult:
        _imports()
        if scenario.get("leg") == "real":
            from sim.engines import pool_real
            return pool_real.execute(scenario)
        return _Execution(scenario).run()


EXPECTED_PROBES = ["out_of_order_completion", "n_lt_k", "n_eq_k", "n_gt_4k", "exception_in_last_chunk", "timeout_fired",
                   "kill_fired", "stall_fired", "generator_args", "records_with_origin_areas", "preprocess_genefinding",
                   "unpicklable_result_fired", "unpicklable_task_fired", "cpus_from_config", "followup_ok",
                   "empty_batch", "preprocess_duplicate_ids", "records_with_sectioned_children", "real_pool_run",
                   "real_out_of_order_completion", "simpool_agrees_with_real_pool", "pipeline_multi_record",
                   "pipeline_out_of_order_completion", "parallel_execute_batch", "preprocess_genefinding_failure"]

_MODS: Dict[str, Any] = {}
_ADDRESS = __import__("re").compile(r"0x[0-9a-fA-F]+")


def _imports() -> None:
    if _MODS:
        return
    from antismash.common import record_processing, subprocessing
    from antismash.common.subprocessing import base
    from antismash import config
    from sim.engines import pool_tasks
    from sim.world import records
    _MODS.update(record_processing=record_processing, subprocessing=subprocessing, base=base, config=config,
                 tasks=pool_tasks, records=records)


def _outcome_class(outcome: Tuple[str, Any]) -> str:
    if outcome[0] == "raised":
        return f"raised:{outcome[1]}"
    return outcome[0]


class _Execution:
    def __init__(self, scenario: Dict[str, Any]) -> None:
        self.sc = scenario
        self.res = RunResult()
        self.trace: List[Any] = []

    # ---------- building the batch
    def _generic_args(self, reference: bool = False) -> List[List[Any]]:
        args = []
        for task in self.sc["tasks"]:
            spec = {k: task.get(k) for k in ("i", "payload", "raise", "unpicklable_result", "mutate_arg")}
            if not reference:
                spec["ms"] = task.get("ms", 1)
                spec["stall"] = bool(task.get("stall"))
            extra = copy.deepcopy(task.get("extra", []))
            if task.get("unpicklable_arg"):
                extra.append(lambda: None)
            args.append([spec] + extra)
        return args

    def _as_form(self, args: List[List[Any]]) -> Any:
        form = self.sc.get("args_form", "list")
        if form == "generator":
            self.res.probe("generator_args")
            return (a for a in args)
        if form == "tuples":
            return [tuple(a) for a in args]
        if form == "iterator":
            self.res.probe("generator_args")
            return iter(args)
        return args

    def _schedule(self, second: bool = False) -> Dict[str, Any]:
        tasks = self.sc["tasks"]
        key = "ms2" if second else "ms"
        return {"durations": [t.get(key, t.get("ms", 1)) for t in tasks],
                "kill_positions": [i for i, t in enumerate(tasks) if t.get("kill")],
                "stall_positions": [i for i, t in enumerate(tasks) if t.get("stall")],
                "stall_s": 3600.0}

    # ---------- calling the code under test
    def _call(self, func: Any, args: Any, cpus: int, timeout: Optional[float]) -> Tuple[Tuple[str, Any], float]:
        base = _MODS["base"]
        sched = simpool.CURRENT
        assert sched is not None
        start = sched.now
        original = base.multiprocessing
        base.multiprocessing = simpool.SHIM
        config = _MODS["config"]
        via_config = bool(self.sc.get("cpus_via_config"))
        if via_config:
            config.update_config({"cpus": cpus})
            self.res.probe("cpus_from_config")
        try:
            value = base.parallel_function(func, args, cpus=None if via_config else cpus, timeout=timeout)
            outcome: Tuple[str, Any] = ("returned", value)
        except simpool.SimHang:
            outcome = ("hang", None)
        except Exception as err:  # pylint: disable=broad-except
            outcome = ("raised", type(err).__name__)
            self.trace.append(["exception", type(err).__name__, _ADDRESS.sub("0x?", str(err))[:120]])
        finally:
            base.multiprocessing = original
            if via_config:
                config.destroy_config()
        return outcome, sched.now - start

    def run(self) -> RunResult:
        sc = self.sc
        res = self.res
        workload = sc["workload"]
        # two builds of one spec must give identical objects (set orders included), so the
        # identity-hash seam is pinned to creation serials; see sim/world/idhash.py
        from sim.world import idhash
        idhash.install(0)
        self._reset_hash = idhash.restart_serials
        try:
            if workload == "generic":
                self._run_generic()
            elif workload == "records":
                self._run_records()
            elif workload == "pipeline":
                self._run_pipeline()
            elif workload == "execute":
                self._run_execute()
            else:
                self._run_preprocess()
        except Exception as err:  # pylint: disable=broad-except
            res["aborted"] = {"op": workload, "error": type(err).__name__, "msg": str(err)[:200],
                              "where": traceback.format_exc()[-600:]}
        sched = simpool.CURRENT
        if sched is not None:
            for key, val in sched.fired.items():
                res.fault(key, val)
            res["sim_time"] = sched.now
            orders = sched.completion_orders
            out_of_order = any(order != sorted(order) for order in orders)
            if out_of_order:
                res.probe("out_of_order_completion")
            res["steps"] = sum(len(o) for o in orders)
            res["nontrivial"] = bool(sc["cpus"] > 1 and (out_of_order or sum(sched.fired.values()) > 0))
            res["sig"] = digest([workload, sc["cpus"], len(sc["tasks"]), orders, sorted(sched.fired.items()),
                                 [t[:2] for t in self.trace if t and t[0] == "outcome"]])
            res["states"] = [digest([sc["cpus"], len(sc["tasks"]), o])[:12] for o in orders]
            self.trace.append(["log", sched.log])
        res["digest"] = digest(self.trace)
        res["trace_head"] = self.trace[:6]
        simpool.install(None)  # type: ignore
        return res

    def _size_probes(self, n: int, k: int) -> None:
        if n == 0:
            self.res.probe("empty_batch")
        elif n < k:
            self.res.probe("n_lt_k")
        elif n == k:
            self.res.probe("n_eq_k")
        elif n > 4 * k:
            self.res.probe("n_gt_4k")

    # ---------- generic batches
    def _run_generic(self) -> None:
        sc, res = self.sc, self.res
        tasks = sc["tasks"]
        k = int(sc["cpus"])
        func = _MODS["tasks"].task
        self._size_probes(len(tasks), k)
        # reference: every call evaluated in-process, on private argument copies
        reference: List[Tuple[bool, Any]] = []
        for argset in self._generic_args(reference=True):
            try:
                reference.append((True, func(*argset)))
            except Exception as err:  # pylint: disable=broad-except
                reference.append((False, type(err).__name__))
        any_raise = any(not ok for ok, _ in reference)
        if tasks and tasks[-1].get("raise"):
            res.probe("exception_in_last_chunk")
        sched = simpool.Schedule([self._schedule()])
        simpool.install(sched)
        outcome, elapsed = self._call(func, self._as_form(self._generic_args()), k, sc.get("timeout"))
        self._judge(outcome, elapsed, [v for _, v in reference] if not any_raise else None, any_raise,
                    lambda a, b: a == b)
        self._followup(k)

    def _judge(self, outcome: Tuple[str, Any], elapsed: float, expected: Optional[List[Any]], any_raise: bool,
               equal: Any) -> None:
        sc, res = self.sc, self.res
        sched = simpool.CURRENT
        assert sched is not None
        k = int(sc["cpus"])
        fired = sched.fired
        timeout = sc.get("timeout")
        self.trace.append(["outcome", _outcome_class(outcome), round(elapsed, 6)])
        if fired.get("timeout"):
            res.probe("timeout_fired")
        if fired.get("worker_killed"):
            res.probe("kill_fired")
        if fired.get("worker_stalled"):
            res.probe("stall_fired")
        if fired.get("unpicklable_result"):
            res.probe("unpicklable_result_fired")
        if fired.get("unpicklable_task"):
            res.probe("unpicklable_task_fired")
        pool_faults = [key for key in ("timeout", "worker_killed", "unpicklable_result", "unpicklable_task",
                                       "result_handler_died") if fired.get(key)]
        # a lost chunk can only be noticed through the timeout; stalls only matter if the timeout fired
        blocking = [key for key in pool_faults if key not in ("worker_killed", "result_handler_died")]
        n = len(sc["tasks"])
        context = f"k={k} n={n} timeout={timeout} faults={dict(fired)}"
        if outcome[0] == "hang":
            if timeout is not None:
                res.violate("C18-t", f"parallel_function blocked forever although a timeout was given ({context})",
                            sig="C18-t:hang-with-timeout")
            else:
                res.probe("hang_by_stdlib_semantics")
            return
        if outcome[0] == "returned":
            value = outcome[1]
            if any_raise:
                res.violate("C18-b", f"a call raised, but parallel_function returned a list of {_len(value)} "
                            f"instead of raising ({context})", sig="C18-b:returned-despite-task-exception")
                return
            if blocking or (fired.get("worker_killed") and k > 1):
                res.violate("C18-b", f"a worker failure/timeout occurred ({pool_faults}) but parallel_function returned a "
                            f"list of {_len(value)} ({context})", sig=f"C18-b:returned-despite:{'+'.join(pool_faults)}")
                return
            if k > 1 and timeout is not None and elapsed > timeout + 1e-9:
                res.violate("C18-t", f"parallel_function returned after {elapsed:.4f}s simulated, timeout was {timeout} "
                            f"({context})", sig="C18-t:timeout-not-enforced")
                return
            assert expected is not None
            if not isinstance(value, list) or len(value) != len(expected):
                res.violate("C18-a", f"result has {_len(value)} entries ({type(value).__name__}), sequential execution "
                            f"gives {len(expected)} ({context})", sig="C18-a:length")
                return
            wrong = [i for i, (a, b) in enumerate(zip(value, expected)) if not equal(a, b)]
            if wrong:
                permuted = sorted(map(repr, value)) == sorted(map(repr, expected))
                res.violate("C18-a", f"results differ from sequential execution at positions {wrong[:8]} "
                            f"({'a permutation' if permuted else 'different content'}; {context})",
                            sig=f"C18-a:{'reordered' if permuted else 'content'}")
            return
        # raised
        if not any_raise and not pool_faults:
            res.violate("C18-c", f"parallel_function raised {outcome[1]} although every call succeeds sequentially and "
                        f"no fault was injected ({context}): {self.trace[-2] if len(self.trace) > 1 else ''}",
                        sig=f"C18-c:spurious-exception:{outcome[1]}")

    def _followup(self, k: int) -> None:
        """ liveness once faults stop: the next batch on a fresh pool equals its reference """
        count = int(self.sc.get("followup") or 0)
        if not count:
            return
        func = _MODS["tasks"].task
        args = [[{"i": i, "payload": i * 3}, "f"] for i in range(count)]
        expected = [func(*copy.deepcopy(a)) for a in args]
        sched = simpool.CURRENT
        assert sched is not None
        sched.batches.append({"durations": [count - i for i in range(count)]})
        sched.cursor = len(sched.batches) - 1
        outcome, _ = self._call(func, args, k, None)
        self.trace.append(["followup", _outcome_class(outcome)])
        if outcome[0] != "returned" or outcome[1] != expected:
            self.res.violate("C18-l", f"after the faults stopped, a clean batch of {count} calls on a fresh pool gave "
                             f"{_outcome_class(outcome)} instead of the sequential result (k={k})",
                             sig="C18-l:followup")
        else:
            self.res.probe("followup_ok")

    # ---------- record batches
    def _run_records(self) -> None:
        sc, res = self.sc, self.res
        tasks = sc["tasks"]
        k = int(sc["cpus"])
        rp = _MODS["record_processing"]
        func = {"sanitise": rp.sanitise_sequence, "identity": _MODS["tasks"].identity_record,
                "touch": _MODS["tasks"].touch_record}[sc.get("func", "sanitise")]
        build, dump = _MODS["records"].build_record, _MODS["records"].dump_record
        self._size_probes(len(tasks), k)
        reference = []
        for t in tasks:
            self._reset_hash()
            reference.append(dump(func(build(t["spec"]))))
        if any(len(p["loc"]) > 1 for t in tasks for p in t["spec"]["protos"] + t["spec"]["subs"]):
            res.probe("records_with_origin_areas")
        if any(f.get("cross_origin") or f.get("pre_origin") for ref in reference for f in ref["features"]):
            res.probe("records_with_sectioned_children")
        sched = simpool.Schedule([self._schedule()])
        simpool.install(sched)
        args = []
        for t in tasks:
            self._reset_hash()
            record = build(t["spec"])
            if t.get("warm", True):
                # caches filled before the record crosses the process boundary (as after any earlier access)
                record.get_cds_features()
                for feature in record.all_features:
                    getattr(feature, "cds_children", None)
            args.append([record])
        outcome, elapsed = self._call(func, self._as_form(args), k, sc.get("timeout"))
        if outcome[0] == "returned" and isinstance(outcome[1], list):
            try:
                outcome = ("returned", [dump(r) for r in outcome[1]])
            except Exception as err:  # pylint: disable=broad-except
                res.violate("C18-r", f"a record returned from a worker cannot be inspected: {type(err).__name__}: {err} "
                            f"(k={k})", sig=f"C18-r:returned-record-broken:{type(err).__name__}")
                return
        self._judge_records(outcome, elapsed, reference)
        self._followup(k)

    def _judge_records(self, outcome: Tuple[str, Any], elapsed: float, reference: List[Any]) -> None:
        before = len(self.res["violations"])
        self._judge(outcome, elapsed, reference, False, lambda a, b: a == b)
        # re-label content differences on records with the first differing field
        for violation in self.res["violations"][before:]:
            if violation["clause"] == "C18-a" and violation["sig"] == "C18-a:content":
                value = outcome[1]
                for got, want in zip(value, reference):
                    if got != want:
                        keys = [key for key in want if got.get(key) != want.get(key)]
                        detail = keys[:3]
                        if "features" in keys:
                            for f_got, f_want in zip(got["features"], want["features"]):
                                if f_got != f_want:
                                    detail.append({key: [f_got.get(key), f_want.get(key)] for key in f_want
                                                   if f_got.get(key) != f_want.get(key)})
                                    break
                        violation["clause"] = "C18-r"
                        violation["sig"] = f"C18-r:record-content:{','.join(map(str, keys[:3]))}"
                        violation["detail"] = (f"record {want['id']} came back from the worker with different content "
                                               f"than in-process execution gives: {str(detail)[:600]} "
                                               f"(k={self.sc['cpus']}, func={self.sc.get('func')})")
                        break

    # ---------- parallel_execute with a fake Popen
    def _run_execute(self) -> None:
        sc, res = self.sc, self.res
        tasks = sc["tasks"]
        k = int(sc["cpus"])
        base = _MODS["base"]
        by_index = {str(t["i"]): t for t in tasks}
        self._size_probes(len(tasks), k)
        res.probe("parallel_execute_batch")

        class FakePopen:
            def __init__(self, commands: List[str], **_kwargs: Any) -> None:
                spec = by_index[commands[-1]]
                if spec.get("raise"):
                    raise OSError(f"cannot run {commands[0]}")
                self.returncode = int(spec["rc"])
                self._stderr = spec.get("stderr", "").encode()
                sched = simpool.CURRENT
                if sched is not None and not sched.in_worker:
                    sched.now += float(spec["ms"]) / 1000.0

            def communicate(self, input: Any = None, timeout: Any = None) -> Tuple[bytes, bytes]:  # pylint: disable=redefined-builtin
                return b"", self._stderr

            def kill(self) -> None:
                return None

            def __enter__(self) -> "FakePopen":
                return self

            def __exit__(self, *_args: Any) -> None:
                return None
        commands = [["simtool", "--flag", str(t["i"])] for t in tasks]
        any_raise = any(t.get("raise") for t in tasks)
        reference = [int(t["rc"]) for t in tasks]
        sched = simpool.Schedule([self._schedule()])
        simpool.install(sched)
        start = sched.now
        originals = (base.multiprocessing, base.Popen, base.os.setpgid)
        base.multiprocessing = simpool.SHIM
        base.Popen = FakePopen
        stderr = sys.stderr
        try:
            base.os.setpgid = lambda *_args: None      # the harness process keeps its process group
            sys.stderr = open(os.devnull, "w", encoding="utf-8")
            value = base.parallel_execute([list(c) for c in commands], cpus=k, timeout=sc.get("timeout"),
                                          verbose=bool(sc.get("verbose")))
            outcome: Tuple[str, Any] = ("returned", value)
        except simpool.SimHang:
            outcome = ("hang", None)
        except Exception as err:  # pylint: disable=broad-except
            outcome = ("raised", type(err).__name__)
            self.trace.append(["exception", type(err).__name__, _ADDRESS.sub("0x?", str(err))[:120]])
        finally:
            sys.stderr.close()
            sys.stderr = stderr
            base.multiprocessing, base.Popen, base.os.setpgid = originals
        self._judge(outcome, sched.now - start, reference if not any_raise else None, bool(any_raise),
                    lambda a, b: a == b)

    # ---------- whole pipeline at --cpus k (simulated pool inside the antiSMASH process) vs --cpus 1
    def _run_pipeline(self) -> None:
        from sim.world import pipeline as P
        sc, res = self.sc, self.res
        k = int(sc["cpus"])
        data = sc["pipeline"]
        simpool.install(simpool.Schedule([]))
        work = P.scratch_dir("c18_")
        try:
            infile = os.path.join(work, "input.gbk")
            P.write_genbank(infile, data["records"])
            schedule = [self._schedule(), self._schedule(second=True)]

            def run(cpus: int, tag: str) -> Tuple[Dict[str, Any], Dict[str, Any]]:
                outdir = os.path.join(work, tag)
                inv = {"args": P.base_args(outdir, cpus=cpus), "input": infile, "hits": data["hits"],
                       "domain_hits": data["domain_hits"], "domain_lengths": data["domain_lengths"], "salt": 0}

                def hook(invocation: Dict[str, Any]) -> None:
                    if cpus == 1:
                        return
                    import atexit
                    from antismash.common.subprocessing import base
                    from sim.world import simpool as child_pool
                    plan = child_pool.Schedule(schedule)
                    child_pool.install(plan)
                    base.multiprocessing = child_pool.SHIM
                    invocation["_events"].append(plan)     # filled in as the run proceeds
                result = P.invoke(inv, hook)
                snap = P.snapshot(outdir, keep_content=True) if os.path.isdir(outdir) else {}
                files = {}
                for name, entry in snap.items():
                    if name.endswith(".zip"):
                        continue
                    text = entry["content"]
                    if name.endswith(".json"):
                        parsed = json.loads(text)
                        parsed.pop("timings", None)
                        text = json.dumps(parsed)
                    files[name] = text
                return result, files
            reference, reference_files = run(1, "seq")
            actual, actual_files = run(k, "par")
            plans = [e for e in actual.get("events", []) if isinstance(e, simpool.Schedule)]
            orders = plans[0].completion_orders if plans else []
            sched = simpool.CURRENT
            if plans and sched is not None:
                sched.completion_orders = orders
                sched.now = plans[0].now
                sched.log = plans[0].log
            res.probe("pipeline_multi_record")
            if any(order != sorted(order) for order in orders):
                res.probe("pipeline_out_of_order_completion")
            self.trace.append(["outcome", actual["status"], reference["status"], orders])
            context = f"{len(data['records'])} records, --cpus {k}, completion orders {orders}"
            if actual["status"] != reference["status"]:
                res.violate("C18-p", f"run_antismash with --cpus {k} ended with {actual['status']} "
                            f"({actual.get('error', '')[:150]}), with --cpus 1 {reference['status']} "
                            f"({reference.get('error', '')[:150]}) ({context})", sig="C18-p:pipeline-status")
                return
            if sorted(actual_files) != sorted(reference_files):
                res.violate("C18-p", f"run_antismash with --cpus {k} wrote files {sorted(actual_files)}, with --cpus 1 "
                            f"{sorted(reference_files)} ({context})", sig="C18-p:pipeline-file-list")
                return
            differing = sorted(name for name in reference_files if reference_files[name] != actual_files[name])
            if differing:
                import difflib
                name = differing[0]
                diff = list(difflib.unified_diff(reference_files[name].splitlines(), actual_files[name].splitlines(),
                                                 "--cpus 1", f"--cpus {k}", lineterm="", n=1))[:20]
                res.violate("C18-p", f"run_antismash outputs differ between --cpus {k} and --cpus 1 in {differing} "
                            f"({context}):\n" + "\n".join(diff), sig="C18-p:pipeline-output")
        finally:
            P.cleanup(work)

    # ---------- whole pre-processing stage
    def _options(self, cpus: int) -> Dict[str, Any]:
        opts = {"reuse_results": None, "skip_sanitisation": False, "allow_long_headers": False,
                "limit_to_record": "", "minlength": 0, "limit": -1, "genefinding_gff3": "",
                "genefinding_tool": "prodigal", "taxon": "bacteria", "cpus": cpus, "triggered_limit": False}
        opts.update(self.sc.get("options", {}))
        opts["cpus"] = cpus
        return opts

    def _preprocess_once(self, cpus: int, simulated: bool) -> Tuple[str, Any]:
        config = _MODS["config"]
        rp = _MODS["record_processing"]
        base = _MODS["base"]
        build, dump = _MODS["records"].build_record, _MODS["records"].dump_record
        records = []
        for t in self.sc["tasks"]:
            self._reset_hash()
            records.append(build(t["spec"]))
        options = config.update_config(self._options(cpus))
        original = base.multiprocessing
        if simulated:
            base.multiprocessing = simpool.SHIM
        try:
            result = rp.pre_process_sequences(records, options, _MODS["tasks"].FakeGeneFinding)
            return ("returned", [dump(r) for r in result])
        except simpool.SimHang:
            return ("hang", None)
        except Exception as err:  # pylint: disable=broad-except
            return ("raised", type(err).__name__)
        finally:
            base.multiprocessing = original
            config.destroy_config()

    def _run_preprocess(self) -> None:
        sc, res = self.sc, self.res
        k = int(sc["cpus"])
        tasks = sc["tasks"]
        ids = [t["spec"]["id"] for t in tasks]
        if len(set(ids)) < len(ids):
            res.probe("preprocess_duplicate_ids")
        if any(not t["spec"]["genes"] for t in tasks):
            res.probe("preprocess_genefinding")
        if any(t["spec"]["id"].endswith(("bad", "nobin")) for t in tasks):
            res.probe("preprocess_genefinding_failure")
        simpool.install(simpool.Schedule([]))
        reference = self._preprocess_once(1, simulated=False)
        sched = simpool.Schedule([self._schedule(), self._schedule(second=True)])
        simpool.install(sched)
        outcome = self._preprocess_once(k, simulated=True)
        self.trace.append(["outcome", _outcome_class(outcome), _outcome_class(reference)])
        # with several failing records the failure that surfaces is the first to arrive, not the first in order:
        # any of the errors that the sequential run could have met is a correct report
        failures = {"AntismashInputError" if t["spec"]["id"].endswith("bad") else "FileNotFoundError"
                    for t in tasks if t["spec"]["id"].endswith(("bad", "nobin")) and not t["spec"]["genes"]}
        if outcome[0] == "raised" and reference[0] == "raised" and {outcome[1], reference[1]} <= failures:
            return
        if _outcome_class(outcome) != _outcome_class(reference):
            res.violate("C18-p", f"pre_process_sequences with cpus={k} gave {_outcome_class(outcome)}, with cpus=1 "
                        f"{_outcome_class(reference)} ({len(tasks)} records)", sig="C18-p:outcome-class")
            return
        if outcome[0] == "returned" and outcome[1] != reference[1]:
            got, want = outcome[1], reference[1]
            if len(got) != len(want):
                res.violate("C18-p", f"pre_process_sequences with cpus={k} returned {len(got)} records, "
                            f"cpus=1 returned {len(want)}", sig="C18-p:length")
                return
            if [g["id"] for g in got] != [w["id"] for w in want]:
                res.violate("C18-p", f"pre_process_sequences with cpus={k} returned records in order "
                            f"{[g['id'] for g in got]}, cpus=1 gives {[w['id'] for w in want]}", sig="C18-p:order")
                return
            for g, w in zip(got, want):
                if g != w:
                    keys = [key for key in w if g.get(key) != w.get(key)]
                    res.violate("C18-p", f"record {w['id']} differs between cpus={k} and cpus=1 in {keys}: "
                                f"{str({key: [g.get(key), w.get(key)] for key in keys if key != 'features'})[:400]}",
                                sig=f"C18-p:content:{','.join(keys[:3])}")
                    return


def _len(value: Any) -> str:
    try:
        return str(len(value))
    except TypeError:
        return f"<{type(value).__name__}>"


ENGINE = PoolEngine()
