""" Engine `write_faults` (C20): fault enumeration over the JSON conversion phase of the results
    writer, on results objects produced by the real pipeline, plus seeded output-directory
    scenarios for the refusal rule.

    Scenario kinds
      convert:   P1 = real pipeline run producing results R and file F; then every conversion fault
                 position x kind (F1), poisoned payload (F2) and a seeded sample of line-granular
                 crash points (F3) is injected into a further write of R to F
      pipeline:  P1; P2 = `--reuse-results F` with one conversion fault armed; P3 fault-free reuse
      directory: a seeded directory tree x run mode against prepare_output_directory / run_antismash
"""

import copy
import json
import os
import random
import shutil
import zlib
import sys
from typing import Any, Dict, Iterator, List, Optional

from sim.core.engine import Engine, RunResult
from sim.core.prng import digest, weighted

FAULT_KINDS = ["TypeError", "ValueError", "KeyError", "AttributeError", "RuntimeError", "MemoryError",
               "RecursionError", "OSError"]
POISONS = ["set", "bytes", "object", "bigint", "lambda"]


class InjectedFault(Exception):
    """ marker mix-in is not used: faults are raised as the plain built-in types the scenario names """


def _exc(kind: str) -> BaseException:
    return {"TypeError": TypeError, "ValueError": ValueError, "KeyError": KeyError, "AttributeError": AttributeError,
            "RuntimeError": RuntimeError, "MemoryError": MemoryError, "RecursionError": RecursionError,
            "OSError": OSError}[kind]("injected conversion fault")


def _poison(kind: str) -> Any:
    return {"set": {1, 2}, "bytes": b"\x00raw", "object": object(), "bigint": 2 ** 70, "lambda": (lambda: 0)}[kind]


# ---------------------------------------------------------------- in-child machinery

class Injector:
    """ Lives in the forked antiSMASH process.  Wraps every conversion step reachable from
        AntismashResults.to_json / dump_records and raises / poisons at the armed position """

    def __init__(self) -> None:
        self.counts: Dict[str, int] = {}
        self.armed: Optional[Dict[str, Any]] = None
        self.fired = False
        self.in_conversion = 0
        self.converted = False
        self.where = ""
        self.lines = 0
        self.target = ""
        self.disk_at_fault: Optional[bytes] = None
        self.restore: List[Any] = []

    # ---- call-level sites
    def _site(self, name: str, original: Any) -> Any:
        injector = self

        def wrapper(*args: Any, **kwargs: Any) -> Any:
            index = injector.counts.get(name, 0)
            injector.counts[name] = index + 1
            armed = injector.armed
            if armed and armed["type"] == "call" and armed["site"] == name and armed["index"] == index:
                injector.fired = True
                injector.disk_at_fault = _read(injector.target)   # what a process death right here would leave
                raise _exc(armed["kind"])
            value = original(*args, **kwargs)
            if armed and armed["type"] == "poison" and armed["site"] == name and armed["index"] == index:
                injector.fired = True
                value = injector._inject_poison(value, armed)
            return value
        wrapper.__name__ = getattr(original, "__name__", name)
        return wrapper

    @staticmethod
    def _inject_poison(value: Any, armed: Dict[str, Any]) -> Any:
        poison = _poison(armed["poison"])
        if not isinstance(value, dict):
            return {"value": value, "poison": poison}
        value = dict(value)
        target = value
        depth = int(armed.get("depth", 0))
        while depth > 0:
            nested = [key for key, val in target.items() if isinstance(val, dict)]
            if not nested:
                break
            key = sorted(nested, key=str)[0]
            target[key] = dict(target[key])
            target = target[key]
            depth -= 1
        target["poison"] = poison
        return value

    def install(self, results: Any) -> None:
        from antismash.common import serialiser
        from antismash.common import json as as_json
        from antismash.common.module_results import ModuleResults
        from antismash.common.secmet import Record

        def patch(owner: Any, attr: str, name: str, static: bool = False) -> None:
            original = getattr(owner, attr)
            self.restore.append((owner, attr, owner.__dict__.get(attr, original)))
            wrapped = self._site(name, original)
            setattr(owner, attr, staticmethod(wrapped) if static else wrapped)

        patch(Record, "to_biopython", "Record.to_biopython")
        patch(Record, "get_gc_content", "Record.get_gc_content")
        patch(serialiser, "record_to_json", "record_to_json")
        patch(serialiser, "gather_record_areas", "gather_record_areas")
        patch(as_json, "dumps", "json.dumps")
        classes = []
        for record_results in results.results:
            for value in record_results.values():
                if isinstance(value, ModuleResults) and type(value) not in classes:
                    classes.append(type(value))
        for cls in sorted(classes, key=lambda c: c.__name__):
            patch(cls, "to_json", f"{cls.__name__}.to_json")
        # conversion phase markers for the line-granular faults
        for owner, attr in ((serialiser.AntismashResults, "to_json"), (serialiser, "dump_records")):
            original = getattr(owner, attr)
            self.restore.append((owner, attr, owner.__dict__.get(attr, original)))
            setattr(owner, attr, self._phase(original))
        # json.dumps is already wrapped as a site; it is part of the phase, and its successful return to
        # the writer ends the conversion: what follows (opening the target, writing) is I/O, not conversion
        wrapped_dumps = as_json.dumps
        injector = self

        def final_dumps(*args: Any, **kwargs: Any) -> Any:
            injector.in_conversion += 1
            try:
                value = wrapped_dumps(*args, **kwargs)
            finally:
                injector.in_conversion -= 1
            caller = sys._getframe(1).f_code.co_name  # pylint: disable=protected-access
            if caller in ("write_to_file", "dump_records", "dump"):
                injector.converted = True
            return value
        as_json.dumps = final_dumps

    def _phase(self, original: Any) -> Any:
        injector = self

        def wrapper(*args: Any, **kwargs: Any) -> Any:
            injector.in_conversion += 1
            try:
                return original(*args, **kwargs)
            finally:
                injector.in_conversion -= 1
        wrapper.__name__ = getattr(original, "__name__", "phase")
        return wrapper

    # ---- line-level sites
    def tracer(self, frame: Any, event: str, _arg: Any) -> Any:
        if not self.in_conversion:
            return None
        filename = frame.f_code.co_filename
        if "/sim/" in filename or "antismash" not in filename and "Bio" not in filename:
            return None
        return self._local

    def _local(self, frame: Any, event: str, _arg: Any) -> Any:
        if event == "line" and self.in_conversion and not self.converted:
            index = self.lines
            self.lines += 1
            armed = self.armed
            if armed and armed["type"] == "line" and armed["index"] == index and not self.fired:
                self.fired = True
                self.where = f"{os.path.basename(frame.f_code.co_filename)}:{frame.f_lineno}:{frame.f_code.co_name}"
                self.disk_at_fault = _read(self.target)
                raise _exc(armed["kind"])
        return self._local

    def reset(self, armed: Optional[Dict[str, Any]]) -> None:
        self.counts = {}
        self.lines = 0
        self.armed = armed
        self.fired = False
        self.where = ""
        self.converted = False
        self.disk_at_fault = None


def arm_next_write(invocation: Dict[str, Any], spec: Dict[str, Any]) -> None:
    """ In the antiSMASH process: the next AntismashResults.write_to_file (however its caller hands over the
        target: a path or an already opened handle) runs with one conversion fault armed """
    from antismash.common import serialiser
    original = serialiser.AntismashResults.write_to_file

    def armed_write(self_results: Any, handle: Any) -> None:
        injector = Injector()
        injector.install(self_results)
        # dry run on a throw-away target to learn the positions, then arm
        injector.reset(None)
        scratch = os.path.join(scratch_root(), f"dryrun_{os.getpid()}.json")
        original(self_results, scratch)
        os.unlink(scratch)
        sites = sorted(site for site in injector.counts if spec["type"] == "call" or site.endswith(".to_json"))
        site = sites[spec["site_rank"] % len(sites)]
        fault = {"type": spec["type"], "site": site, "index": spec["index_rank"] % injector.counts[site],
                 "kind": spec["kind"], "poison": spec["poison"], "depth": spec["depth"]}
        invocation["_events"].append({"armed": fault, "target_is_path": isinstance(handle, str)})
        injector.reset(fault)
        try:
            original(self_results, handle)
        finally:
            invocation["_events"].append({"fired": injector.fired})
    serialiser.AntismashResults.write_to_file = armed_write


def scratch_root() -> str:
    from sim.world import pipeline as P
    os.makedirs(P.SCRATCH_ROOT, exist_ok=True)
    return P.SCRATCH_ROOT


def _read(path: str) -> Optional[bytes]:
    try:
        with open(path, "rb") as handle:
            return handle.read()
    except FileNotFoundError:
        return None


def _enumerate(counts: Dict[str, int], lines: int, plan: Dict[str, Any]) -> List[Dict[str, Any]]:
    if isinstance(plan.get("explicit"), list):
        return list(plan["explicit"])
    rng = random.Random(f"faults:{plan.get('seed', 0)}")
    kinds = plan.get("kinds") or FAULT_KINDS
    faults: List[Dict[str, Any]] = []
    for site in sorted(counts):
        for index in range(counts[site]):
            for kind in kinds:
                faults.append({"type": "call", "site": site, "index": index, "kind": kind})
    for site in sorted(counts):
        if not site.endswith(".to_json"):
            continue
        for index in range(counts[site]):
            for poison in plan.get("poisons") or POISONS:
                faults.append({"type": "poison", "site": site, "index": index, "poison": poison,
                               "depth": rng.choice([0, 0, 1, 2])})
    if lines:
        wanted = plan.get("f3_samples", 48)
        positions = list(range(lines)) if wanted >= lines else sorted(rng.sample(range(lines), wanted))
        for index in positions:
            faults.append({"type": "line", "index": index, "kind": rng.choice(kinds)})
    return faults


def fault_loop(results: Any, path: str, plan: Dict[str, Any], events: List[Any]) -> None:
    """ Runs inside the antiSMASH process, right after the real write of `results` to `path` """
    from antismash.common import serialiser
    injector = Injector()
    injector.install(results)
    entry = plan.get("entry", "write_to_file")
    target = path
    if entry == "dump_records":
        target = path + ".records.json"
        serialiser.dump_records(results.results, results.records, target)

    injector.target = target

    def write() -> None:
        if entry == "dump_records":
            serialiser.dump_records(results.results, results.records, target)
        else:
            results.write_to_file(target)

    def traced_write() -> None:
        sys.settrace(injector.tracer)
        try:
            write()
        finally:
            sys.settrace(None)

    # fault-free instrumented control run: counts the positions, must leave a loadable file
    injector.reset(None)
    try:
        traced_write()
        control = "ok"
    except BaseException as err:  # pylint: disable=broad-except
        control = f"raised:{type(err).__name__}:{err}"
    counts = dict(injector.counts)
    lines = injector.lines
    before = _read(target)
    try:
        json.loads(before or b"")
    except ValueError:
        control = "control-file-not-json"
    events.append({"control": control, "counts": counts, "lines": lines, "entry": entry})
    if control != "ok":
        return
    faults = _enumerate(counts, lines, plan)
    for fault in faults:
        injector.reset(fault)
        try:
            if fault["type"] == "line":
                traced_write()
            else:
                write()
            outcome = "returned"
        except BaseException as err:  # pylint: disable=broad-except
            outcome = f"raised:{type(err).__name__}"
        after = _read(target)
        record = {"fault": fault, "fired": injector.fired, "outcome": outcome, "unchanged": after == before,
                  "where": injector.where,
                  "crash_safe": fault["type"] == "poison" or not injector.fired or injector.disk_at_fault == before}
        if after != before:
            try:
                json.loads(after or b"")
                record["after_valid_json"] = True
            except ValueError:
                record["after_valid_json"] = False
                record["after_size"] = None if after is None else len(after)
            with open(target, "wb") as handle:    # put the previous file back for the next fault
                handle.write(before or b"")
        events.append(record)
    for owner, attr, original in reversed(injector.restore):
        setattr(owner, attr, original)


# ---------------------------------------------------------------- the engine

class WriteFaults(Engine):
    name = "write_faults"
    properties = ("C20",)
    real_components = ["antismash.common.serialiser.AntismashResults.write_to_file / to_json / dump_records / "
                       "record_to_json / gather_record_areas", "antismash.common.json.dumps (orjson)",
                       "real ModuleResults objects produced by the real pipeline (HMMDetectionResults, NRPSPKSDomains, "
                       "TTAResults, SideloadedResults, HmmerResults / TIGRFamResults, Pfam2GoResults, AllFunctionResults, T2PKSResults, "
                       "TerpeneResults, RREFinderResults, TFBSFinderResults)", "antismash.main.prepare_output_directory / run_antismash "
                       "(incl. its logging set-up under --verbose / --debug and --profiling)",
                       "real files in a scratch directory"]
    stub_components = ["hmmsearch / hmmscan / diamond -> in-process fakes", "wall clock -> simulated clock",
                       "database directory -> scratch directory"]
    rule = ("one run = one scenario. convert: a generated input is run through the real pipeline, then EVERY position of "
            "every conversion step (Record.to_biopython, record_to_json, gather_record_areas, get_gc_content, each "
            "module's to_json, json.dumps) x 8 exception kinds, every to_json position x 5 unencodable payloads, and a "
            "seeded sample (all, in the thorough tier) of line-granular crash points inside the conversion phase is "
            "injected into a further write of the same results to the existing file. pipeline: run / faulted reuse / "
            "fault-free reuse histories. directory: seeded directory trees x run modes against the refusal rule. "
            "non-trivial = at least one fault fired inside the conversion phase, or a directory with >= 1 entry; "
            "distinct = digest of (scenario kind, fault positions fired, outcome classes)")
    assumptions = [
        "faults are conversion failures (exceptions and unencodable values) up to the moment the target is opened; "
        "I/O errors during the write itself (short/torn writes, ENOSPC) are not injected because the statement "
        "promises nothing about them",
        "a line-level fault that the code under test legitimately handles (returns normally) is accepted when the "
        "file afterwards is complete, valid JSON",
        "directory scenarios contain no dot-files (glob('*') cannot see them and the statement is silent)",
    ]

    def tier_config(self, prop: str, tier: str) -> Dict[str, Any]:
        if tier == "quick":
            return {"runs": 220, "deadline_s": 240, "shrink_s": 60, "level": "fault_enumeration", "f3_samples": 48,
                    "chunk": 2, "expected_probes": EXPECTED_PROBES}
        return {"runs": 3000, "deadline_s": 3300, "shrink_s": 240, "level": "fault_enumeration", "f3_samples": 100000,
                "chunk": 4, "expected_probes": EXPECTED_PROBES}

    def prepare(self, prop: str, cfg: Dict[str, Any]) -> None:
        import antismash.main  # noqa: F401  pylint: disable=unused-import

    # ------------------------------------------------------------ generation
    def generate(self, rng, cfg: Dict[str, Any], prop: str) -> Dict[str, Any]:
        from sim.engines.hashseed import ENGINE as HASHSEED
        kind = weighted(rng, [("convert", 3), ("pipeline", 2), ("directory", 6)])
        if kind == "directory":
            return self._gen_directory(rng)
        base = HASHSEED._gen_pipeline(rng)  # pylint: disable=protected-access
        scenario = {"kind": kind, "records": base["records"], "hits": base["hits"], "domain_hits": base["domain_hits"],
                    "domain_lengths": base["domain_lengths"], "extra_args": base["extra_args"],
                    "sideload_cli": base["sideload_cli"]}
        if rng.random() < 0.5:
            scenario["sideload"] = self._gen_sideload(rng, base["records"])
        if kind == "convert":
            scenario["plan"] = {"entry": rng.choice(["write_to_file", "write_to_file", "dump_records"]),
                                "seed": rng.randrange(1 << 30), "f3_samples": int(cfg.get("f3_samples", 48)),
                                "kinds": rng.sample(FAULT_KINDS, rng.choice([2, 3, len(FAULT_KINDS)]))}
        else:
            scenario["fault"] = {"type": rng.choice(["call", "call", "poison"]), "site_rank": rng.randrange(1000),
                                 "index_rank": rng.randrange(1000), "kind": rng.choice(FAULT_KINDS),
                                 "poison": rng.choice(POISONS), "depth": rng.choice([0, 1])}
            # where the reused results come from and where the new results file goes: the same file, a copy of
            # it outside the output directory (the target is then another, already existing file), or another
            # output base name under which a results file already exists
            scenario["reuse_from"] = rng.choice(["in_place", "in_place", "copy", "basename"])
            if len(base["records"]) > 1 and rng.random() < 0.5:
                # no injected fault at all: the reuse run is told to analyse only the first record, so the stored results
                # of the others stay unconverted - whatever the writer makes of that
                scenario["reuse_from"] = "limit"
        return scenario

    def _gen_sideload(self, rng, records: List[Dict[str, Any]]) -> Dict[str, Any]:
        record = rng.choice(records)
        length = len(record["seq"])
        sub = []
        proto = []
        for _ in range(rng.randint(1, 2)):
            gene = rng.choice([g for g in record["genes"] if len(g["parts"]) == 1])["parts"][0]   # a complete gene
            sub.append({"start": max(0, gene[0] - rng.choice([0, 10, 200])),
                        "end": min(length, gene[1] + rng.choice([0, 10, 200])), "label": "sim-sub"})
        if rng.random() < 0.6:
            gene = rng.choice([g for g in record["genes"] if len(g["parts"]) == 1])["parts"][0]
            left, right = rng.choice([0, 100]), rng.choice([0, 100])
            if not record.get("circular"):      # on a linear record neighbourhoods must stay inside
                left, right = min(left, gene[0]), min(right, length - gene[1])
            proto.append({"core_start": gene[0], "core_end": gene[1], "product": "sim-product",
                          "neighbourhood_left": left, "neighbourhood_right": right})
        first = {"tool": {"name": "simtool", "version": "1.0", "description": "simulated annotations",
                          "configuration": {"verbose": "true"}},
                 "records": [{"name": record["id"], "subregions": sub, "protoclusters": proto}]}
        if rng.random() < 0.35:
            # a second file: the same tool in another version / configuration, or a tool that happens to carry the
            # name antiSMASH uses for areas given on the command line
            gene = rng.choice([g for g in record["genes"] if len(g["parts"]) == 1])["parts"][0]
            name = rng.choice(["simtool", "simtool", "manual"])
            second = {"tool": {"name": name, "version": rng.choice(["2.1", "2024-03"]),
                               "description": rng.choice(["simulated annotations", "curated by the lab"]),
                               "configuration": {"verbose": "false", "mode": "exploratory"}},
                      "records": [{"name": record["id"], "subregions": [
                          {"start": max(0, gene[0] - 5), "end": min(length, gene[1] + 5), "label": "second-file"}]}]}
            return [first, second]
        return first

    def _gen_directory(self, rng) -> Dict[str, Any]:
        entries = []
        names = ["input", "input.json", "old.json", "REC0.region001.gbk", "index.html", "notes.txt", "svg", "data",
                 "input.gbk", "regions.js", "log.txt", "x.region001.gbk", "README"]
        for _ in range(rng.choice([0, 0, 1, 1, 2, 3, 5])):
            name = rng.choice(names)
            if any(entry["name"] == name for entry in entries):
                continue
            kind = rng.choice(["file", "file", "dir", "symlink"]) if name != "input" else rng.choice(["dir", "dir", "file"])
            entry: Dict[str, Any] = {"name": name, "type": kind}
            if kind == "file":
                entry["content"] = rng.choice(["", "{}", "previous results\n", "LOCUS old\n//\n"])
            elif kind == "dir":
                entry["children"] = [{"name": rng.choice(["a.txt", "seq.gbk", "deep"]), "type": "file",
                                      "content": "child"} for _ in range(rng.choice([0, 1, 2]))]
            else:
                entry["target"] = rng.choice(["/etc/hostname", "missing-target", "."])
            entries.append(entry)
        if rng.random() < 0.25:
            # the leftovers of an earlier run on the same input: everything is named after the input
            entries = [{"name": name, "type": "file", "content": "previous results\n"}
                       for name in rng.sample(["input.json", "input.gbk", "input.zip", "input.gff", "input.txt"],
                                              rng.randint(1, 4))]
            if rng.random() < 0.3:
                entries.append({"name": "input", "type": "dir", "children": []})
            return {"kind": "directory", "entries": entries, "exists": True, "is_file": False, "mode": "sequence",
                    "input_name": "input.gbk", "logfile": rng.choice(["inside", "outside", "none"]),
                    "explicit_output_dir": True, "level": rng.choice(["pipeline", "pipeline", "function"]),
                    "verbosity": rng.choice(["", "", "--verbose", "--debug"]), "profiling": rng.random() < 0.25}
        # foreign directories whose names merely resemble the input copy directory; drawn from a side stream
        # derived from the entries so far, so that the main random stream (and every older scenario) is unchanged
        side = random.Random(zlib.crc32(json.dumps(entries, sort_keys=True).encode()) ^ 0x5EED)
        if side.random() < 0.2:
            entries.append({"name": side.choice(["inputs_backup", "input.old", "input2", "input_", "my_input"]),
                            "type": "dir", "children": [{"name": "seq.gbk", "type": "file", "content": "child"}
                                                        for _ in range(side.choice([0, 1]))]})
        return {"kind": "directory", "entries": entries,
                "dirname": rng.choice(["out", "out", "out", "run[1]", "results*", "my results", "a?b"]),
                "exists": rng.random() < 0.9, "is_file": rng.random() < 0.05,
                "mode": rng.choice(["sequence", "sequence", "reuse"]),
                "input_name": rng.choice(["input.gbk", "genome.fa", "seq.gbk.gz", "contigs.fa.gz", "genome.json.gbk", "old.json.bz2.gbk"]),
                "logfile": rng.choice(["inside", "outside", "none"]),
                "explicit_output_dir": rng.random() < 0.8,
                "level": rng.choice(["function", "function", "pipeline"]),
                "verbosity": rng.choice(["", "", "--verbose", "--debug"]), "profiling": rng.random() < 0.25}

    # ------------------------------------------------------------ execution
    def execute(self, scenario: Dict[str, Any], prop: str) -> RunResult:
        kind = scenario["kind"]
        if kind == "convert":
            return self._run_convert(scenario)
        if kind == "pipeline":
            return self._run_pipeline(scenario)
        return self._run_directory(scenario)

    def _base_invocation(self, scenario: Dict[str, Any], work: str) -> Dict[str, Any]:
        from sim.world import pipeline as P
        outdir = os.path.join(work, "out")
        infile = os.path.join(work, "input.gbk")
        P.write_genbank(infile, scenario["records"])
        args = P.base_args(outdir) + list(scenario.get("extra_args", [])) + list(scenario.get("sideload_cli", []))
        if scenario.get("sideload"):
            args += ["--sideload", P.write_sideload(work, scenario["sideload"])]
        return {"args": args, "input": infile, "hits": scenario["hits"], "domain_hits": scenario["domain_hits"],
                "domain_lengths": scenario["domain_lengths"], "salt": 0, "outdir": outdir}

    def _run_convert(self, scenario: Dict[str, Any]) -> RunResult:
        from sim.world import pipeline as P
        res = RunResult()
        work = P.scratch_dir("c20_")
        try:
            inv = self._base_invocation(scenario, work)
            plan = scenario["plan"]

            def hook(invocation: Dict[str, Any]) -> None:
                from antismash.common import serialiser
                original = serialiser.AntismashResults.write_to_file
                state = {"done": False}

                def capture(self_results: Any, handle: Any) -> None:
                    original(self_results, handle)
                    if not state["done"] and isinstance(handle, str):
                        state["done"] = True
                        serialiser.AntismashResults.write_to_file = original
                        fault_loop(self_results, handle, plan, invocation["_events"])
                serialiser.AntismashResults.write_to_file = capture
            result = P.invoke(inv, hook, timeout_s=600)
            events = result.get("events", [])
            if not events or "control" not in events[0]:
                res["aborted"] = {"op": "convert", "error": "no-fault-loop", "msg": f"{result.get('status')} "
                                  f"{result.get('error', '')}"[:300]}
                return self._finish(res, scenario, [])
            control = events[0]
            if control["control"] != "ok":
                res["aborted"] = {"op": "convert", "error": "control-failed", "msg": str(control["control"])[:300]}
                return self._finish(res, scenario, [])
            res.probe("conversion_positions", sum(control["counts"].values()))
            res.probe("conversion_line_events", control["lines"])
            trace = [["control", control["counts"], control["lines"]]]
            for record in events[1:]:
                fault = record["fault"]
                label = fault["type"] if fault["type"] != "call" else f"call:{fault['kind']}"
                if not record["fired"]:
                    res.probe("fault_not_reached")
                    continue
                res.fault(label)
                trace.append([fault, record["outcome"], record["unchanged"]])
                where = fault.get("site") or record.get("where")
                position = f"{fault['type']} fault at {where}#{fault.get('index')} ({fault.get('kind') or fault.get('poison')})"
                if not record.get("crash_safe", True):
                    res.violate("C20-b", f"{position} during {control['entry']}: at the instant of the fault the existing "
                                "results file had already been modified (a crash at this point loses the previous results)",
                                sig=f"C20-b:modified-before-fault:{fault['type']}", fault=fault)
                    break
                res.probe("crash_points_checked")
                if record["outcome"] == "returned":
                    if fault["type"] == "line" and (record["unchanged"] or record.get("after_valid_json")):
                        res.probe("line_fault_handled_by_code")
                        continue
                    res.violate("C20-a", f"{position} during {control['entry']}: the call returned normally, the failure "
                                f"was not reported (file {'unchanged' if record['unchanged'] else 'rewritten'})",
                                sig=f"C20-a:swallowed:{fault['type']}", fault=fault)
                    break
                if not record["unchanged"]:
                    state = ("valid JSON" if record.get("after_valid_json") else
                             f"damaged ({record.get('after_size')} bytes)")
                    res.violate("C20-b", f"{position} during {control['entry']}: the call failed with "
                                f"{record['outcome']} but the existing results file was modified: now {state}",
                                sig=f"C20-b:file-changed:{fault['type']}", fault=fault)
                    break
            if result.get("status") != "exit:0":
                res["aborted"] = {"op": "convert", "error": "pipeline-failed-after-loop",
                                  "msg": f"{result.get('status')} {result.get('error', '')}"[:300]}
            return self._finish(res, scenario, trace)
        finally:
            P.cleanup(work)

    def _finish(self, res: RunResult, scenario: Dict[str, Any], trace: List[Any]) -> RunResult:
        res["steps"] = len(trace)
        res["digest"] = digest(trace)
        res["sig"] = digest([scenario["kind"], trace])
        res["nontrivial"] = bool(sum(res["faults"].values()) > 0 or res["probes"].get("directory_with_entries"))
        res["states"] = [digest(t)[:12] for t in trace[1:40]]
        res["trace_head"] = trace[:5]
        return res

    def _run_pipeline(self, scenario: Dict[str, Any]) -> RunResult:
        from sim.world import pipeline as P
        res = RunResult()
        work = P.scratch_dir("c20_")
        trace: List[Any] = []
        try:
            inv = self._base_invocation(scenario, work)
            outdir = inv["outdir"]
            first = P.invoke(inv)
            trace.append(["P1", first["status"]])
            target = os.path.join(outdir, "input.json")
            if first["status"] != "exit:0" or not os.path.exists(target):
                res["aborted"] = {"op": "pipeline", "error": "P1-failed", "msg": f"{first['status']} {first.get('error', '')}"[:300]}
                return self._finish(res, scenario, trace)
            before = P.snapshot(outdir)
            before_bytes = _read(target)
            spec = scenario["fault"]

            def hook(invocation: Dict[str, Any]) -> None:
                arm_next_write(invocation, spec)
            reuse_args = [arg for arg in inv["args"]]
            source = target
            mode = scenario.get("reuse_from", "in_place")
            if mode == "limit":
                stored = json.loads(before_bytes.decode("utf-8"))
                limited = P.invoke(dict(inv, args=reuse_args + ["--reuse-results", target, "--limit", "1"], input=None,
                                        hits=[], domain_hits={}))
                trace.append(["P2-limit", limited["status"]])
                res.fault("pipeline:unconverted-results-of-skipped-record")
                if limited["status"] != "exit:0":
                    res.probe("limited_reuse_failed_and_said_so")
                    if _read(target) != before_bytes:
                        res.violate("C20-b", f"reuse run with --limit 1 failed ({limited['status']}) but the existing results "
                                    "file was modified", sig="C20-b:limit-file-changed")
                    return self._finish(res, scenario, trace)
                # it reported success: then nothing that was stored may have been lost on the way
                try:
                    now = {record["id"]: sorted(record.get("modules", {})) for record in
                           json.loads(_read(target).decode("utf-8"))["records"]}
                except (ValueError, KeyError):
                    now = {}
                lost = [record["id"] for record in stored["records"]
                        if record.get("modules") and now.get(record["id"]) != sorted(record["modules"])]
                if lost:
                    res.violate("C20-a", "reuse run with --limit 1 reported success, but the stored results of "
                                f"{lost} - which it could not convert - are gone from the results file "
                                f"(before: {[(r['id'], sorted(r.get('modules', {}))) for r in stored['records']]}, "
                                f"after: {sorted(now.items())})", sig="C20-a:limit-silent-loss")
                else:
                    res.probe("limited_reuse_kept_everything")
                return self._finish(res, scenario, trace)
            if mode == "copy":
                os.mkdir(os.path.join(work, "elsewhere"))
                source = os.path.join(work, "elsewhere", "input.json")
                shutil.copyfile(target, source)
                res.probe("reuse_from_copy_elsewhere")
            elif mode == "basename":
                reuse_args += ["--output-basename", "final"]
                target = os.path.join(outdir, "final.json")
                shutil.copyfile(source, target)
                res.probe("reuse_under_other_basename")
                before = P.snapshot(outdir)
            second = dict(inv, args=reuse_args + ["--reuse-results", source], input=None, hits=[], domain_hits={})
            faulted = P.invoke(second, hook)
            armed = next((e["armed"] for e in faulted["events"] if "armed" in e), None)
            fired = any(e.get("fired") for e in faulted["events"])
            trace.append(["P2", faulted["status"], armed, fired])
            if not fired:
                res["aborted"] = {"op": "pipeline", "error": "fault-not-fired", "msg": f"{faulted['status']} "
                                  f"{faulted.get('error', '')}"[:300]}
                return self._finish(res, scenario, trace)
            res.fault(f"pipeline:{armed['type']}")
            position = f"{armed['type']} fault at {armed['site']}#{armed['index']} ({armed['kind'] if armed['type'] == 'call' else armed['poison']})"
            if faulted["status"] == "exit:0":
                res.violate("C20-a", f"reuse run with a {position} finished with exit status 0: the failure was not "
                            "reported", sig=f"C20-a:pipeline-exit-0:{armed['type']}")
                return self._finish(res, scenario, trace)
            if _read(target) != before_bytes:
                res.violate("C20-b", f"reuse run failed on a {position} ({faulted['status']}) but the existing results file "
                            f"{os.path.basename(target)} was modified", sig=f"C20-b:pipeline-file-changed:{armed['type']}")
                return self._finish(res, scenario, trace)
            # history clause: a later fault-free run works from the surviving file and reproduces the outputs
            third = P.invoke(dict(second))
            trace.append(["P3", third["status"]])
            after = P.snapshot(outdir)
            if third["status"] != "exit:0":
                res.violate("C20-c", f"after a failed reuse run ({position}), a fault-free reuse run from the surviving "
                            f"results file failed: {third['status']} {third.get('error', '')}",
                            sig="C20-c:recovery-failed")
            else:
                differing = sorted(name for name in before if name.endswith(".gbk")
                                   and before[name]["sha"] != after.get(name, {}).get("sha"))
                if differing:
                    res.violate("C20-c", f"after a failed reuse run ({position}), the fault-free reuse run produced "
                                f"different GenBank outputs than the original run: {differing}",
                                sig="C20-c:recovery-differs")
                else:
                    res.probe("recovered_after_failed_run")
            return self._finish(res, scenario, trace)
        finally:
            P.cleanup(work)

    # ---------- directory refusal
    def _run_directory(self, scenario: Dict[str, Any]) -> RunResult:
        from sim.world import pipeline as P
        res = RunResult()
        work = P.scratch_dir("c20d_")
        trace: List[Any] = []
        try:
            outdir = os.path.join(work, scenario.get("dirname", "out"))
            logfile = {"inside": os.path.join(outdir, "log.txt"), "outside": os.path.join(work, "log.txt"),
                       "none": ""}[scenario["logfile"]]
            if scenario["exists"]:
                if scenario["is_file"]:
                    with open(outdir, "w", encoding="utf-8") as handle:
                        handle.write("a file where the directory should be")
                else:
                    os.mkdir(outdir)
                    self._materialise(outdir, scenario["entries"])
            reuse = scenario["mode"] == "reuse"
            records = [{"id": "REC0", "seq": "GGCC" * 400 + "AT" * 100, "circular": False,
                        "genes": [{"name": "g0", "parts": [[30, 330]], "strand": 1}]}]
            if reuse:
                input_path = os.path.join(outdir if scenario["exists"] and not scenario["is_file"] else work, "prev.json")
            else:
                name = scenario["input_name"]
                if scenario["level"] != "function":
                    name = name.replace(".gz", "")     # the pipeline itself has to be able to read the input
                if not scenario["explicit_output_dir"]:
                    # so that the derived directory is <cwd>/<dirname>
                    name = scenario.get("dirname", "out") + os.path.splitext(name)[1]
                input_path = os.path.join(work, name)
                P.write_genbank(input_path, records)

            def visible(directory: str) -> List[str]:
                if not os.path.isdir(directory):
                    return []
                return sorted(name for name in os.listdir(directory) if not name.startswith("."))
            entries = visible(outdir)
            if reuse and not os.path.exists(input_path):
                with open(input_path, "w", encoding="utf-8") as handle:
                    handle.write("{}")
                entries = visible(outdir)
            ignorable = set()
            if os.path.isdir(os.path.join(outdir, "input")) and not os.path.islink(os.path.join(outdir, "input")):
                ignorable.add("input")
            if logfile and os.path.dirname(logfile) == outdir:
                ignorable.add(os.path.basename(logfile))
            others = [name for name in entries if name not in ignorable]
            if scenario["exists"] and scenario["is_file"]:
                expect_refusal = True
            else:
                expect_refusal = bool(scenario["exists"] and not reuse and others)
            if entries:
                res.probe("directory_with_entries")
            if expect_refusal:
                res.probe("refusal_expected")
            before = self._tree(outdir, logfile)
            log_was_link = bool(logfile) and os.path.islink(logfile)
            level = scenario["level"]

            def hook(invocation: Dict[str, Any]) -> None:
                return None
            if level == "function" or reuse:
                status = self._call_prepare(outdir, input_path, logfile, scenario)
            else:
                args = P.base_args(outdir)
                args[args.index("--logfile") + 1] = logfile or os.path.join(work, "unused-log.txt")
                if not logfile:
                    position = args.index("--logfile")
                    del args[position:position + 2]
                inv = {"args": args, "input": input_path, "hits": [], "domain_hits": {}, "salt": 0}
                if scenario.get("verbosity"):
                    inv["args"] = args + [scenario["verbosity"]]
                    inv["logging"] = True
                if scenario.get("profiling"):
                    inv["args"] = inv["args"] + ["--profiling"]      # a report is written into the output directory
                result = P.invoke(inv, hook)
                status = result["status"]
                if status.startswith("raised:") and "AntismashInputError" not in status and "all records skipped" not in result.get("error", ""):
                    status = status + ":" + result.get("error", "")[:120]
            after = self._tree(outdir, logfile)
            trace.append([scenario["mode"], level, entries, sorted(ignorable), expect_refusal, status.split(":")[0:2]])
            # refused = the run did not go ahead: the explicit safety error, or any other failure before writing
            # (e.g. the log file path being a directory); going ahead = prepare_output_directory returned / exit 0
            refused = status not in ("returned", "exit:0")
            res.fault("directory_scenario")
            listing = f"directory entries {entries} (ignorable: {sorted(ignorable)}), mode={scenario['mode']}, logfile={scenario['logfile']}"
            if expect_refusal:
                if not refused:
                    res.violate("C20-d", f"antiSMASH did not refuse an output directory containing other files: {listing}; "
                                f"outcome {status}", sig=f"C20-d:not-refused:{level}")
                elif after != before:
                    changed = sorted(set(before) ^ set(after)) or [k for k in before if before[k] != after.get(k)]
                    res.violate("C20-d", f"antiSMASH refused the output directory but modified it first: {changed[:6]}; "
                                f"{listing}", sig=f"C20-d:refused-but-modified:{level}")
                else:
                    res.probe("refused_and_untouched")
            elif log_was_link:
                # the logger follows a symlink at the log path and creates its target next to it: whether that
                # new file still counts as "the log file" is not something the statement settles either way
                res.probe("log_path_was_symlink")
            else:
                if status.startswith("raised:AntismashInputError") and ("aborting for safety" in status
                                                                       or "not a directory" in status
                                                                       or level == "function"):
                    res.violate("C20-e", f"antiSMASH refused an output directory that only holds its own input copy / log / "
                                f"reused results: {listing}; outcome {status}", sig=f"C20-e:spurious-refusal:{level}")
                else:
                    res.probe("accepted")
            return self._finish(res, scenario, trace)
        finally:
            P.cleanup(work)

    @staticmethod
    def _materialise(directory: str, entries: List[Dict[str, Any]]) -> None:
        for entry in entries:
            path = os.path.join(directory, entry["name"])
            if entry["type"] == "file":
                with open(path, "w", encoding="utf-8") as handle:
                    handle.write(entry.get("content", ""))
            elif entry["type"] == "dir":
                os.mkdir(path)
                WriteFaults._materialise(path, [dict(child, name=f"{i}_{child['name']}")
                                                for i, child in enumerate(entry.get("children", []))])
            else:
                os.symlink(entry["target"], path)

    @staticmethod
    def _tree(directory: str, skip: str = "") -> Dict[str, Any]:
        """ names, types, bytes and link targets below directory; the configured log file is antiSMASH's
            own and is written whether or not the run goes ahead, so it is left out """
        out: Dict[str, Any] = {}
        if os.path.islink(directory) or not os.path.exists(directory):
            return out
        if os.path.isfile(directory):
            return {".": ["file", _read(directory)]}
        for root, dirs, files in os.walk(directory):
            dirs.sort()
            for name in sorted(dirs + files):
                path = os.path.join(root, name)
                rel = os.path.relpath(path, directory)
                # (a log path that is a symlink makes the logger create its target: that file is the log too)
                if skip and os.path.realpath(path) == os.path.realpath(skip):
                    continue
                if os.path.islink(path):
                    out[rel] = ["link", os.readlink(path)]
                elif os.path.isdir(path):
                    out[rel] = ["dir"]
                else:
                    out[rel] = ["file", _read(path)]
        return out

    @staticmethod
    def _call_prepare(outdir: str, input_path: str, logfile: str, scenario: Dict[str, Any]) -> str:
        """ prepare_output_directory in a forked child with a real config """
        from sim.world import pipeline as P

        def body() -> str:
            import antismash.main as main
            from antismash.config import build_config
            from antismash.common.errors import AntismashInputError
            args = ["--minimal", "--databases", P.database_dir(), "--cpus", "1", "--genefinding-tool", "none"]
            if scenario["explicit_output_dir"] or scenario["mode"] == "reuse":
                args += ["--output-dir", outdir]
            if logfile:
                args += ["--logfile", logfile]
            if scenario["mode"] == "reuse":
                args += ["--reuse-results", input_path]
            if scenario.get("verbosity"):
                args += [scenario["verbosity"]]
            options = build_config(args, isolated=True, modules=main.get_all_modules())
            name = options.output_dir
            if not scenario["explicit_output_dir"] and scenario["mode"] != "reuse":
                # the directory name is derived from the input's base name in the working directory
                os.chdir(os.path.dirname(outdir))
                name = ""
            import contextlib
            from antismash.common import logs
            # with a verbosity option the logging is set up the way run_antismash does it
            context = (logs.changed_logging(logfile=options.logfile, verbose=options.verbose, debug=options.debug)
                       if scenario.get("verbosity") else contextlib.nullcontext())
            try:
                with context:
                    main.prepare_output_directory(name, input_path)
                return "returned"
            except AntismashInputError as err:
                return f"raised:AntismashInputError:{err}"
            except Exception as err:  # pylint: disable=broad-except
                return f"raised:{type(err).__name__}:{err}"
        result_file = outdir + ".status"
        pid = os.fork()
        if pid == 0:
            code = 0
            try:
                import logging
                if scenario.get("verbosity"):
                    sys.stderr = open(os.devnull, "w", encoding="utf-8")  # pylint: disable=consider-using-with
                    logging.disable(logging.NOTSET)     # (the forking process may have had logging switched off)
                else:
                    logging.disable(logging.CRITICAL)
                status = body()
                with open(result_file, "w", encoding="utf-8") as handle:
                    handle.write(status)
            except BaseException as err:  # pylint: disable=broad-except
                code = 70
                with open(result_file, "w", encoding="utf-8") as handle:
                    handle.write(f"harness-error:{type(err).__name__}:{err}")
            finally:
                os._exit(code)
        os.waitpid(pid, 0)
        with open(result_file, encoding="utf-8") as handle:
            status = handle.read()
        os.unlink(result_file)
        return status

    # ------------------------------------------------------------ shrinking / samples
    def ops_key(self) -> Optional[str]:
        return "hits"

    def shrink_candidates(self, scenario: Dict[str, Any]) -> Iterator[Dict[str, Any]]:
        if scenario["kind"] == "directory":
            for i in range(len(scenario["entries"])):
                cand = copy.deepcopy(scenario)
                del cand["entries"][i]
                yield cand
            if scenario["logfile"] != "none":
                cand = copy.deepcopy(scenario)
                cand["logfile"] = "none"
                yield cand
            return
        if scenario.get("sideload"):
            cand = copy.deepcopy(scenario)
            del cand["sideload"]
            yield cand
        if len(scenario["records"]) > 1:
            for i in range(len(scenario["records"])):
                cand = copy.deepcopy(scenario)
                del cand["records"][i]
                yield cand
        if scenario["domain_hits"].get("nrpspksdomains.hmm"):
            cand = copy.deepcopy(scenario)
            cand["domain_hits"]["nrpspksdomains.hmm"] = []
            yield cand

    def sample_view(self, scenario: Dict[str, Any], result: RunResult) -> Any:
        view = {"kind": scenario["kind"]}
        if scenario["kind"] == "directory":
            view.update({k: scenario.get(k) for k in ("entries", "dirname", "mode", "logfile", "level", "exists", "is_file")})
        else:
            view["records"] = [[r["id"], len(r["seq"]), len(r["genes"])] for r in scenario["records"]]
            view["hits"] = len(scenario["hits"])
            view["plan_or_fault"] = scenario.get("plan") or scenario.get("fault")
        view["trace"] = result.get("trace_head")
        view["faults"] = result["faults"]
        return view


EXPECTED_PROBES = ["conversion_positions", "conversion_line_events", "crash_points_checked", "refusal_expected", "refused_and_untouched", "accepted",
                   "recovered_after_failed_run", "directory_with_entries", "reuse_from_copy_elsewhere",
                   "reuse_under_other_basename"]

ENGINE = WriteFaults()
