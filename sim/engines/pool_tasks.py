""" Module-level (picklable) task functions used by the pool engine """

from typing import Any


class Boom(Exception):
    """ A picklable exception with a payload """


class BadInit(Exception):
    """ An exception that pickles but cannot be rebuilt from its args (two-argument constructor): in a real pool
        the parent's result handler thread dies on it """
    def __init__(self, first: Any, second: Any) -> None:
        super().__init__(f"{first}: {second}")


class Unpicklable:
    """ A result value that cannot cross the process boundary """
    def __reduce__(self) -> Any:
        raise TypeError("cannot pickle Unpicklable")

    def __eq__(self, other: Any) -> bool:
        return isinstance(other, Unpicklable)


_EXC = {"ValueError": ValueError, "KeyError": KeyError, "RuntimeError": RuntimeError, "Boom": Boom,
        "ZeroDivisionError": ZeroDivisionError, "AssertionError": AssertionError, "StopIteration": StopIteration,
        # the kinds a missing binary / full disk / broken pipe produce inside a worker
        "OSError": OSError, "FileNotFoundError": FileNotFoundError, "BrokenPipeError": BrokenPipeError}


def task(spec: dict, *extra: Any) -> Any:
    """ A pure function of its arguments; fails as its spec says.  Its running time exists only on the
        simulated clock: inside a simulated worker the pool accounts for it, and when the call is made
        directly in the calling process the clock is advanced here, so that time passes either way """
    from sim.world import simpool
    sched = simpool.CURRENT
    if sched is not None and not sched.in_worker and spec.get("ms") is not None:
        sched.now += float(spec["ms"]) / 1000.0 + (3600.0 if spec.get("stall") else 0.0)
    if spec.get("raise") == "BadInit":
        raise BadInit("task", spec["i"])
    if spec.get("raise"):
        raise _EXC[spec["raise"]](f"task {spec['i']} failed")
    if spec.get("unpicklable_result"):
        return Unpicklable()
    value = {"i": spec["i"], "payload": spec.get("payload"), "extra": ["<callable>" if callable(e) else e for e in extra],
             "nested": [(spec["i"], len(extra)), {"k": str(spec.get("payload"))[::-1]}]}
    if spec.get("mutate_arg") and extra and isinstance(extra[0], list):
        extra[0].append("mutated")  # a worker mutating its private copy must not matter
    return value


def identity_record(record: Any) -> Any:
    """ hands a record straight back: what returns must have the same content as what was sent """
    return record


def touch_record(record: Any) -> Any:
    """ small mutation inside the worker, visible only through the returned copy """
    record.description = (record.description or "") + "|touched"
    for cds in record.get_cds_features():
        cds.product = "touched"
    return record


class FakeGeneFinding:
    """ stands in for the genefinding module in pre_process_sequences: deterministic ORF-like genes;
        like the real tools it fails with a ValueError on records it cannot handle (ids ending in 'bad') """
    @staticmethod
    def run_on_record(record: Any, options: Any) -> None:
        if str(record.id).endswith("bad"):
            raise ValueError(f"gene finding failed for {record.id}: sequence not usable")
        if str(record.id).endswith("nobin"):
            raise FileNotFoundError(2, "No such file or directory", "prodigal")   # the tool's binary is missing
        from antismash.common.secmet.features import CDSFeature
        from antismash.common.secmet.locations import FeatureLocation
        length = len(record.seq)
        pos = 3
        count = 0
        while pos + 30 <= length and count < 5:
            count += 1
            strand = 1 if count % 2 else -1
            cds = CDSFeature(FeatureLocation(pos, pos + 30, strand), translation="M" * 10,
                             locus_tag=f"{record.id}_orf{count}")
            record.add_cds_feature(cds)
            pos += 45
