""" Engine `reuse_history` (C11): histories of antiSMASH invocations on one output directory.
    Every invocation is a forked process running the real main.run_antismash; between
    invocations all in-memory state dies and only the files survive (restart with durable
    state only).  The scheduler injects configuration changes, schema upgrades, records from
    another analysis and failed invocations between the restarts.
"""

import copy
import hashlib
import json
import os
from typing import Any, Dict, Iterator, List, Optional, Tuple

from sim.core.engine import Engine, RunResult
from sim.core.prng import digest, weighted

DEFAULT_OPTIONS = {"strictness": "relaxed", "limit_rules": [], "limit_categories": [], "tta": True,
                   "tta_threshold": 0.65, "cutoff_mult": 1.0, "nbh_mult": 1.5,
                   "tfbs": False, "tfbs_pvalue": 0.0005, "tfbs_range": 50,
                   "rre": False, "rre_cutoff": 25.0, "rre_minlength": 50, "pfam_version": "latest"}
HMM_KEYS = ("strictness", "limit_rules", "limit_categories", "cutoff_mult", "nbh_mult")
SCHEMA_TARGETS = ["HMMDetectionResults", "RuleDetectionResults", "TTAResults", "NRPSPKSDomains", "SideloadedResults",
                  "AntismashResults"]
MODULE_OF = {"HMMDetectionResults": "antismash.detection.hmm_detection", "RuleDetectionResults": "antismash.detection.hmm_detection",
             "TTAResults": "antismash.modules.tta", "NRPSPKSDomains": "antismash.detection.nrps_pks_domains",
             "SideloadedResults": "antismash.detection.sideloader"}


def option_args(options: Dict[str, Any], fungi: bool) -> List[str]:
    args: List[str] = ["--hmmdetection-strictness", options["strictness"]]
    if options["limit_rules"]:
        args += ["--hmmdetection-limit-to-rule-names", ",".join(options["limit_rules"])]
    if options["limit_categories"]:
        args += ["--hmmdetection-limit-to-rule-categories", ",".join(options["limit_categories"])]
    # the threshold is a setting of its own: it is given whether or not the analysis is requested in this run,
    # otherwise leaving the analysis out would silently change the threshold back to the default
    args += ["--tta-threshold", str(options["tta_threshold"])]
    if options["tta"]:
        args += ["--enable-tta"]
    args += ["--tfbs-pvalue", repr(float(options.get("tfbs_pvalue", 0.00001))), "--tfbs-range",
             str(options.get("tfbs_range", 50))]
    if options.get("tfbs"):
        args += ["--tfbs"]
    # likewise for RREFinder: cutoff and minimum length are settings whether or not the analysis is requested
    args += ["--rre-cutoff", repr(float(options.get("rre_cutoff", 25.0))), "--rre-minlength",
             str(options.get("rre_minlength", 50))]
    if options.get("rre"):
        args += ["--rre"]
    # the Pfam release of the HMMer based annotations (only looked at when those analyses are requested)
    args += ["--clusterhmmer-pfamdb-version", options.get("pfam_version", "latest"),
             "--fullhmmer-pfamdb-version", options.get("pfam_version", "latest")]
    if fungi:
        args += ["--taxon", "fungi", "--hmmdetection-fungal-cutoff-multiplier", str(options["cutoff_mult"]),
                 "--hmmdetection-fungal-neighbourhood-multiplier", str(options["nbh_mult"])]
    return args


def _recorder(inv: Dict[str, Any]) -> None:
    """ In the child: log what every module's regenerate_previous_results / run_on_record did.
        The wrappers call straight through and change nothing. """
    import antismash.main as main
    events = inv["_events"]

    def short(results: Any) -> str:
        try:
            return hashlib.sha256(json.dumps(results.to_json(), sort_keys=True, default=str).encode()).hexdigest()[:12]
        except Exception as err:  # pylint: disable=broad-except
            return f"to_json-raised:{type(err).__name__}"

    def wrap(module: Any) -> None:
        regen = module.regenerate_previous_results
        run = module.run_on_record

        def regenerate(previous: Any, record: Any, options: Any) -> Any:
            try:
                value = regen(previous, record, options)
            except BaseException as err:
                events.append(["regen", module.__name__, record.id, f"raised:{type(err).__name__}", None])
                raise
            # some results classes define __len__, so emptiness must not be mistaken for None
            events.append(["regen", module.__name__, record.id, "results" if value is not None else "none",
                           short(value) if value is not None else None])
            return value

        def run_on_record(record: Any, results: Any, options: Any) -> Any:
            value = run(record, results, options)
            events.append(["run", module.__name__, record.id, "with-previous" if results else "fresh",
                           short(value) if value is not None else None])
            return value
        module.regenerate_previous_results = regenerate
        module.run_on_record = run_on_record
    for module in main.get_all_modules():
        if hasattr(module, "regenerate_previous_results") and hasattr(module, "run_on_record"):
            wrap(module)


def _bump(target: str) -> None:
    from antismash.common import serialiser
    from antismash.common.hmm_rule_parser.cluster_prediction import RuleDetectionResults
    from antismash.detection.hmm_detection import HMMDetectionResults
    from antismash.detection.nrps_pks_domains.domain_identification import NRPSPKSDomains
    from antismash.detection.sideloader.data_structures import SideloadedResults
    from antismash.modules.tta.tta import TTAResults
    if target == "AntismashResults":
        serialiser.AntismashResults.SCHEMA_VERSION = 99
        return
    cls = {"HMMDetectionResults": HMMDetectionResults, "RuleDetectionResults": RuleDetectionResults,
           "TTAResults": TTAResults, "NRPSPKSDomains": NRPSPKSDomains, "SideloadedResults": SideloadedResults}[target]
    cls.schema_version = cls.schema_version + 1


class ReuseHistory(Engine):
    name = "reuse_history"
    properties = ("C11",)
    real_components = ["antismash.main.run_antismash / read_data / run_detection / run_module / write_outputs",
                       "hmm_detection, sideloader, nrps_pks_domains, cluster_hmmer / full_hmmer / pfam2go, tigrfam, genefunctions, "
                       "t2pks, terpene, rrefinder, tfbs_finder, tta: run_on_record, regenerate_previous_results, "
                       "to_json / from_json, add_to_record", "serialiser.AntismashResults.from_file / write_to_file, "
                       "record_from_json", "GenBank writers", "one forked process per invocation; real files"]
    stub_components = ["hmmsearch / hmmscan / diamond -> in-process fakes (hmmsearch answers only in the invocation that computes; "
                       "hmmscan keeps answering in reuse invocations, where some analyses legitimately search again)",
                       "wall clock -> simulated clock", "database directory -> scratch",
                       "memory layout -> salted identity hashes, a different salt for every invocation"]
    rule = ("one run = one history of 2-5 invocations on one output directory: a fresh analysis of a generated "
            "multi-record input, then --reuse-results invocations with unchanged options (most), changed result-defining "
            "options (strictness, rule/category limits, fungal multipliers, TTA threshold / enabled, TFBS p-value / range, RRE cutoff / "
            "minimum length, Pfam release), a bumped schema "
            "version, module results offered to a different record, or a failed invocation in between. Outputs of every "
            "invocation are compared with the previous invocation and with fresh reference analyses under the changed "
            "options. non-trivial = the history has a reuse invocation over >= 1 region; distinct = digest of (input, "
            "option sequence, fault sequence, per-module outcome classes)")
    assumptions = [
        "results of modules that are no longer enabled are kept by design when reusing; nothing is asserted about them",
        "changing --taxon or the --sideload file between runs is not generated (the stored value is documented to win)",
        "a refused invocation (non-zero / exception) is always an acceptable answer to changed settings",
    ]

    def tier_config(self, prop: str, tier: str) -> Dict[str, Any]:
        if tier == "quick":
            return {"runs": 420, "deadline_s": 300, "shrink_s": 90, "level": "exploration", "chunk": 3,
                    "expected_probes": EXPECTED_PROBES}
        return {"runs": 20000, "deadline_s": 3400, "shrink_s": 300, "level": "exploration", "chunk": 6,
                "expected_probes": EXPECTED_PROBES}

    def prepare(self, prop: str, cfg: Dict[str, Any]) -> None:
        import antismash.main  # noqa: F401  pylint: disable=unused-import

    # ------------------------------------------------------------ generation
    def generate(self, rng, cfg: Dict[str, Any], prop: str) -> Dict[str, Any]:
        from sim.engines.hashseed import ENGINE as HASHSEED
        from sim.engines.write_faults import ENGINE as WRITE_FAULTS, FAULT_KINDS
        base = HASHSEED._gen_pipeline(rng)  # pylint: disable=protected-access
        toggles = [arg for arg in base["extra_args"] if arg in ("--clusterhmmer", "--fullhmmer", "--pfam2go", "--enable-t2pks", "--enable-terpene", "--tigrfam",
                              "--enable-genefunctions")]
        scenario: Dict[str, Any] = {"records": base["records"], "hits": base["hits"], "domain_hits": base["domain_hits"],
                                    "domain_lengths": base["domain_lengths"],
                                    # (fungal records are never treated as circular: origin-spanning genes are refused)
                                    "fungi": rng.random() < 0.25 and not any(len(gene["parts"]) == 2 for record in
                                                                             base["records"] for gene in record["genes"]),
                                    "toggles": toggles, "sideload_cli": base["sideload_cli"]}
        # TTA only looks at regions of GC rich records; plant some TTA codons in frame (in a quarter of the inputs none
        # at all: the analysis runs and finds nothing, its results are empty but present)
        plant = rng.random() < 0.75
        for record in scenario["records"]:
            seq = list(record["seq"])
            for gene in record["genes"]:
                if not plant:
                    continue
                if rng.random() < 0.5 and len(gene["parts"]) == 1:
                    start = gene["parts"][0][0] + 3 * rng.randrange(1, 20)
                    codon = "TTA" if gene["strand"] == 1 else "TAA"
                    seq[start:start + 3] = list(codon)
                elif len(gene["parts"]) == 2:
                    # a gene spanning the origin whose parts are not whole codons: the codon straddling the origin
                    # becomes TTA (forward strand: T,T,A in reading order; reverse strand: its reverse complement)
                    total = len(seq)
                    lower = next(e for b, e in gene["parts"] if b == 0)
                    upper = next(e - b for b, e in gene["parts"] if e == total)
                    phase = upper % 3 if gene["strand"] == 1 else (3 - lower % 3) % 3
                    if phase:
                        positions = [total - 1, 0, 1] if phase == 1 else [total - 2, total - 1, 0]
                        for position, letter in zip(positions, "TTA" if gene["strand"] == 1 else "TAA"):
                            seq[position] = letter
            if rng.random() < 0.15:   # a low-GC record: TTA skipped at the default threshold
                seq = list("".join(rng.choice("ATATGC") for _ in seq))
            record["seq"] = "".join(seq)
        if rng.random() < 0.4:
            scenario["sideload"] = WRITE_FAULTS._gen_sideload(rng, scenario["records"])  # pylint: disable=protected-access
        options = dict(DEFAULT_OPTIONS)
        options["strictness"] = rng.choice(["relaxed", "relaxed", "strict", "loose"])
        options["tta"] = rng.random() < 0.8
        options["tfbs"] = rng.random() < 0.4
        options["tfbs_pvalue"] = rng.choice([0.00001, 0.0005, 0.002])
        if "--rre" in base["extra_args"]:
            options["rre"] = rng.random() < 0.85
            options["rre_cutoff"] = float(base["extra_args"][base["extra_args"].index("--rre-cutoff") + 1])
            options["rre_minlength"] = int(base["extra_args"][base["extra_args"].index("--rre-minlength") + 1])
        steps = [{"options": copy.deepcopy(options), "salt": 0}]
        count = rng.randint(1, 4)
        for index in range(count):
            last = index == count - 1
            kind = weighted(rng, [("same", 5), ("change", 5), ("schema", 1.2 if last else 0), ("foreign", 0.8 if last else 0),
                                  ("fault", 1)])
            step: Dict[str, Any] = {"salt": rng.randrange(1, 1 << 30)}
            if kind == "change":
                options = copy.deepcopy(options)
                what = rng.choice(["strictness", "limit_rules", "limit_categories", "tta_threshold", "tta", "tta", "multipliers",
                                   "tfbs", "tfbs_pvalue", "tfbs_range"]
                                  + (["rre", "rre_cutoff", "rre_cutoff", "rre_minlength"] * 3 if "--rre" in base["extra_args"] else [])
                                  + (["pfam_version"] * 3 if {"--clusterhmmer", "--fullhmmer"} & set(toggles) else []))
                if what == "strictness":
                    options["strictness"] = rng.choice([s for s in ("strict", "relaxed", "loose") if s != options["strictness"]])
                elif what == "limit_rules":
                    options["limit_rules"] = [] if options["limit_rules"] else rng.sample(["T1PKS", "NRPS", "T3PKS", "terpene", "T2PKS"], 2)
                elif what == "limit_categories":
                    options["limit_categories"] = [] if options["limit_categories"] else [rng.choice(["PKS", "NRPS", "RiPP", "terpene"])]
                elif what == "tta_threshold":
                    options["tta_threshold"] = rng.choice([t for t in (0.1, 0.65, 0.95) if t != options["tta_threshold"]])
                elif what == "tta":
                    options["tta"] = not options["tta"]
                elif what == "tfbs":
                    options["tfbs"] = not options["tfbs"]
                elif what == "tfbs_pvalue":
                    options["tfbs_pvalue"] = rng.choice([p for p in (0.00001, 0.0005, 0.002) if p != options["tfbs_pvalue"]])
                elif what == "tfbs_range":
                    options["tfbs_range"] = 120 if options["tfbs_range"] == 50 else 50
                elif what == "pfam_version":
                    options["pfam_version"] = rng.choice([v for v in ("latest", "34.0", "35.0") if v != options["pfam_version"]])
                elif what == "rre":
                    options["rre"] = not options["rre"]
                elif what == "rre_cutoff":
                    # (mostly towards stricter values that some hit scores exactly)
                    options["rre_cutoff"] = rng.choice([c for c in (24.0, 25.0, 30.0, 30.0, 42.0, 42.0) if c != options["rre_cutoff"]])
                elif what == "rre_minlength":
                    options["rre_minlength"] = rng.choice([n for n in (45, 50, 60, 75) if n != options["rre_minlength"]])
                else:
                    options["cutoff_mult"] = rng.choice([1.0, 2.0])
                    options["nbh_mult"] = rng.choice([1.5, 1.0])
            elif kind == "schema":
                step["schema_bump"] = rng.choice(SCHEMA_TARGETS)
            elif kind == "foreign":
                step["foreign_record"] = True
            elif kind == "fault":
                step["fault"] = {"type": rng.choice(["call", "poison"]), "site_rank": rng.randrange(1000),
                                 "index_rank": rng.randrange(1000), "kind": rng.choice(FAULT_KINDS),
                                 "poison": rng.choice(["set", "bytes", "object"]), "depth": 0}
            step["options"] = copy.deepcopy(options)
            # which analyses are requested is not a setting of the stored results: a reuse run that does not
            # ask for an analysis again keeps (regenerates and re-saves) what is stored
            step["toggles_off"] = bool(toggles) and rng.random() < 0.35
            steps.append(step)
        scenario["steps"] = steps
        return scenario

    def ops_key(self) -> Optional[str]:
        return "steps"

    def shrink_candidates(self, scenario: Dict[str, Any]) -> Iterator[Dict[str, Any]]:
        if scenario.get("sideload"):
            cand = copy.deepcopy(scenario)
            del cand["sideload"]
            yield cand
        if scenario.get("fungi"):
            cand = copy.deepcopy(scenario)
            cand["fungi"] = False
            yield cand
        for i, toggle in enumerate(scenario.get("toggles", [])):
            cand = copy.deepcopy(scenario)
            del cand["toggles"][i]
            yield cand
        if len(scenario["records"]) > 1:
            for i in range(len(scenario["records"])):
                cand = copy.deepcopy(scenario)
                del cand["records"][i]
                yield cand
        if scenario["domain_hits"].get("nrpspksdomains.hmm"):
            cand = copy.deepcopy(scenario)
            cand["domain_hits"]["nrpspksdomains.hmm"] = []
            yield cand
        for i in range(len(scenario["hits"])):
            cand = copy.deepcopy(scenario)
            del cand["hits"][i]
            yield cand
        for i, step in enumerate(scenario["steps"]):
            if step.get("salt"):
                cand = copy.deepcopy(scenario)
                cand["steps"][i]["salt"] = 0
                yield cand

    def sample_view(self, scenario: Dict[str, Any], result: RunResult) -> Any:
        return {"records": [[r["id"], len(r["seq"]), len(r["genes"]), r.get("circular")] for r in scenario["records"]],
                "hits": len(scenario["hits"]), "sideload": bool(scenario.get("sideload")), "fungi": scenario["fungi"],
                "toggles": scenario.get("toggles"),
                "steps": [{k: v for k, v in step.items() if k != "salt"} for step in scenario["steps"]],
                "trace": result.get("trace_head")}

    # ------------------------------------------------------------ execution
    def execute(self, scenario: Dict[str, Any], prop: str) -> RunResult:
        return _History(scenario).run()


EXPECTED_PROBES = ["reuse_unchanged_ok", "region_with_2_protoclusters", "nrps_pks_modules_present", "tta_codons_present",
                   "refusal_observed", "recompute_observed", "changed_options_equal_fresh", "schema_bump_discarded",
                   "foreign_record_discarded", "failed_invocation_in_history", "sideloaded_areas_present",
                   "origin_spanning_protocluster", "tfbs_hits_present", "rre_hits_present",
                   "gene_function_hits_present", "tigrfam_hits_present"]


def _load(path: str) -> Optional[Dict[str, Any]]:
    try:
        with open(path, encoding="utf-8") as handle:
            data = json.load(handle)
    except (OSError, ValueError):
        return None
    data.pop("timings", None)
    return data


class _History:
    def __init__(self, scenario: Dict[str, Any]) -> None:
        self.sc = scenario
        self.res = RunResult()
        self.trace: List[Any] = []

    def invocation(self, work: str, outdir: str, step: Dict[str, Any], fresh_input: Optional[str],
                   hooks: Any = None) -> Dict[str, Any]:
        from sim.world import pipeline as P
        sc = self.sc
        args = P.base_args(outdir)
        args.remove("--enable-tta")
        args += option_args(step["options"], sc["fungi"])
        if not step.get("toggles_off"):
            args += list(sc.get("toggles", []))
        if fresh_input:
            args += list(sc.get("sideload_cli", []))
        if sc.get("sideload") and fresh_input:
            args += ["--sideload", P.write_sideload(work, sc["sideload"])]
        inv = {"args": args, "salt": step.get("salt", 0), "hits": sc["hits"], "domain_hits": sc["domain_hits"],
               "domain_lengths": sc["domain_lengths"]}
        if fresh_input:
            inv["input"] = fresh_input
        else:
            inv["input"] = None
            inv["args"] = args + ["--reuse-results", os.path.join(outdir, "input.json")]
            # a reuse run that needs hmmsearch results for rule detection finds none (rule detection never searches
            # again on reuse).  The hmmscan based analyses may by design search again - RREFinder when its settings
            # become more lenient or it is requested for the first time, the Pfam annotations when another Pfam
            # release is requested - and hmmscan then answers as it did before; that an analysis is not repeated
            # under unchanged settings is checked from the recorded regenerate / run calls instead
            inv["hits"] = []

        def all_hooks(invocation: Dict[str, Any]) -> None:
            _recorder(invocation)
            if step.get("schema_bump"):
                _bump(step["schema_bump"])
            if hooks:
                hooks(invocation)
        return P.invoke(inv, all_hooks)

    def run(self) -> RunResult:
        from sim.world import pipeline as P
        sc, res = self.sc, self.res
        work = P.scratch_dir("c11_")
        try:
            outdir = os.path.join(work, "out")
            infile = os.path.join(work, "input.gbk")
            P.write_genbank(infile, sc["records"])
            if sc.get("sideload"):
                P.write_sideload(work, sc["sideload"])
            steps = sc["steps"]
            first = self.invocation(work, outdir, steps[0], infile)
            self.trace.append(["P0", first["status"], steps[0]["options"]])
            if first["status"] != "exit:0":
                res["aborted"] = {"op": "P0", "error": "fresh-run-failed", "msg": f"{first['status']} {first.get('error', '')}"[:300]}
                return self._finish()
            state = self._observe(outdir)
            if state is None:
                res["aborted"] = {"op": "P0", "error": "no-results-file"}
                return self._finish()
            self._content_probes(state)
            good_options = steps[0]["options"]
            deferred: set = set()
            for index, step in enumerate(steps[1:], start=1):
                if res["violations"]:
                    break
                if step.get("foreign_record"):
                    self._foreign_record(outdir, step)
                    continue
                if step.get("fault"):
                    self._faulted(work, outdir, step, state)
                    continue
                before_bytes = self._file_bytes(outdir)
                result = self.invocation(work, outdir, step, None)
                events = result.get("events", [])
                regen = {(e[1], e[2]): e for e in events if e[0] == "regen"}
                runs = {(e[1], e[2]): e for e in events if e[0] == "run"}
                label = f"P{index}"
                self.trace.append([label, result["status"], step["options"], step.get("schema_bump"),
                                   sorted([k[0].rsplit(".", 1)[-1], k[1], v[3]] for k, v in regen.items())])
                if step.get("schema_bump"):
                    self._judge_schema(step, result, regen, state)
                    break
                changed = [key for key in step["options"] if step["options"][key] != good_options[key]]
                if changed in (["tta"], ["tfbs"], ["rre"]) and not step["options"][changed[0]]:
                    changed = []      # an analysis is no longer requested: its stored results stay as they are
                # a Pfam release requested while the Pfam analyses were not asked for takes effect (as a changed
                # setting) in the first later invocation that asks for them again
                if not step.get("toggles_off") and deferred:
                    changed = sorted(set(changed) | deferred)
                if not changed:
                    new_state = self._judge_unchanged(label, result, outdir, state, regen, runs)
                else:
                    new_state = self._judge_changed(label, work, step, result, outdir, state, changed, regen,
                                                    before_bytes)
                if new_state is not None:
                    state = new_state
                    good_options = step["options"]
                    if step.get("toggles_off"):
                        deferred |= {key for key in changed if key == "pfam_version"}
                    else:
                        deferred.clear()
            return self._finish()
        finally:
            P.cleanup(work)

    # ---------- observation helpers
    @staticmethod
    def _file_bytes(outdir: str) -> Dict[str, bytes]:
        out = {}
        for name in sorted(os.listdir(outdir)):
            path = os.path.join(outdir, name)
            if os.path.isfile(path) and not name.endswith(".zip"):
                with open(path, "rb") as handle:
                    out[name] = handle.read()
        return out

    def _observe(self, outdir: str) -> Optional[Dict[str, Any]]:
        data = _load(os.path.join(outdir, "input.json"))
        if data is None:
            return None
        files = self._file_bytes(outdir)
        return {"json": data, "gbk": {name: content for name, content in files.items() if name.endswith(".gbk")}}

    def _content_probes(self, state: Dict[str, Any]) -> None:
        res = self.res
        for record in state["json"]["records"]:
            for area in record.get("areas", []):
                if len(area.get("protoclusters", {})) >= 2:
                    res.probe("region_with_2_protoclusters")
                if area["start"] > area["end"]:
                    res.probe("origin_spanning_protocluster")
            modules = record.get("modules", {})
            domains = modules.get("antismash.detection.nrps_pks_domains", {})
            if any(cds.get("modules") for cds in domains.get("cds_results", {}).values()):
                res.probe("nrps_pks_modules_present")
            if modules.get("antismash.modules.tta", {}).get("TTA codons"):
                res.probe("tta_codons_present")
            if any(modules.get("antismash.modules.tfbs_finder", {}).get("hits_by_region", {}).values()):
                res.probe("tfbs_hits_present")
            if modules.get("antismash.modules.rrefinder", {}).get("hits_by_cds"):
                res.probe("rre_hits_present")
            if any(tool.get("best_hits") for tool in
                   modules.get("antismash.detection.genefunctions", {}).get("tools", {}).values()):
                res.probe("gene_function_hits_present")
            if modules.get("antismash.detection.tigrfam", {}).get("hits"):
                res.probe("tigrfam_hits_present")
            side = modules.get("antismash.detection.sideloader", {})
            if side.get("subregions") or side.get("protoclusters"):
                res.probe("sideloaded_areas_present")

    @staticmethod
    def _diff(old: Dict[str, Any], new: Dict[str, Any]) -> List[str]:
        """ names of what differs between two observed states """
        out = []
        old_json, new_json = old["json"], new["json"]
        for key in sorted(set(old_json) | set(new_json)):
            if key == "records":
                continue
            if old_json.get(key) != new_json.get(key):
                out.append(f"json.{key}")
        old_records = {r["id"]: r for r in old_json["records"]}
        new_records = {r["id"]: r for r in new_json["records"]}
        for rec_id in sorted(set(old_records) | set(new_records)):
            a, b = old_records.get(rec_id), new_records.get(rec_id)
            if a is None or b is None:
                out.append(f"record {rec_id} missing")
                continue
            for key in sorted(set(a) | set(b)):
                if key == "modules":
                    for module in sorted(set(a["modules"]) | set(b["modules"])):
                        if json.dumps(a["modules"].get(module)) != json.dumps(b["modules"].get(module)):
                            out.append(f"{rec_id}.modules.{module.rsplit('.', 1)[-1]}")
                elif json.dumps(a.get(key)) != json.dumps(b.get(key)):
                    out.append(f"{rec_id}.{key}")
        for name in sorted(set(old["gbk"]) | set(new["gbk"])):
            if old["gbk"].get(name) != new["gbk"].get(name):
                out.append(f"file {name}")
        return out

    @staticmethod
    def _explain(old: Dict[str, Any], new: Dict[str, Any], item: str) -> str:
        import difflib
        if item.startswith("file "):
            name = item[5:]
            a = (old["gbk"].get(name) or b"<missing>").decode("utf-8", "replace").splitlines()
            b = (new["gbk"].get(name) or b"<missing>").decode("utf-8", "replace").splitlines()
        else:
            a = json.dumps(old["json"], indent=1).splitlines()
            b = json.dumps(new["json"], indent=1).splitlines()
        return "\n".join(list(difflib.unified_diff(a, b, "stored / reference", "this invocation", lineterm="", n=1))[:30])

    # ---------- oracles
    def _judge_unchanged(self, label: str, result: Dict[str, Any], outdir: str, state: Dict[str, Any],
                         regen: Dict[Any, Any], runs: Dict[Any, Any]) -> Optional[Dict[str, Any]]:
        res = self.res
        if result["status"] != "exit:0":
            res.violate("C11-a", f"{label}: reusing results with unchanged options failed: {result['status']} "
                        f"{result.get('error', '')}", sig=f"C11-a:unchanged-reuse-failed:{result['status'].split(':')[-1]}")
            return None
        new_state = self._observe(outdir)
        if new_state is None:
            res.violate("C11-a", f"{label}: no results file after a successful reuse", sig="C11-a:no-file")
            return None
        # every stored module result must be regenerated, not recomputed
        for record in state["json"]["records"]:
            for module in record.get("modules", {}):
                event = regen.get((module, record["id"]))
                if event is None:
                    continue   # module no longer part of this antiSMASH: nothing promised
                if event[3] != "results":
                    res.violate("C11-a", f"{label}: stored {module.rsplit('.', 1)[-1]} results of record {record['id']} were not "
                                f"regenerated under unchanged options ({event[3]})",
                                sig=f"C11-a:not-regenerated:{module.rsplit('.', 1)[-1]}")
                    return None
        differing = self._diff(state, new_state)
        if differing:
            kind = "gbk" if all(item.startswith("file ") for item in differing) else "json"
            first = differing[0]
            res.violate("C11-a", f"{label}: reusing results with unchanged options changed the outputs: {differing[:6]}\n"
                        f"{self._explain(state, new_state, first)}",
                        sig=f"C11-a:unchanged-reuse-differs:{kind}:{first.split('.')[-1] if kind == 'json' else 'gbk'}")
            return None
        res.probe("reuse_unchanged_ok")
        return new_state

    def _fresh_reference(self, work: str, step: Dict[str, Any]) -> Tuple[Dict[str, Any], Optional[Dict[str, Any]]]:
        outdir = os.path.join(work, f"fresh_{len(self.trace)}")
        reference_step = dict(step, salt=0)
        reference_step.pop("schema_bump", None)
        result = self.invocation(work, outdir, reference_step, os.path.join(work, "input.gbk"))
        return result, (self._observe(outdir) if result["status"] == "exit:0" else None)

    def _judge_changed(self, label: str, work: str, step: Dict[str, Any], result: Dict[str, Any], outdir: str,
                       state: Dict[str, Any], changed: List[str], regen: Dict[Any, Any],
                       before_bytes: Dict[str, bytes]) -> Optional[Dict[str, Any]]:
        res = self.res
        if result["status"] != "exit:0":
            res.probe("refusal_observed")
            self.trace.append([label, "refused", changed])
            # a refused run must not have replaced the stored results
            after = self._file_bytes(outdir)
            if after.get("input.json") != before_bytes.get("input.json"):
                # ... unless it was no refusal at all: an invocation that fails in exactly the same way when nothing is
                # reused (a crash while writing the outputs, after the results were saved) says nothing about reuse
                fresh_result, _ = self._fresh_reference(work, step)
                if fresh_result["status"] == result["status"]:
                    res.probe("fails_without_reuse_too")
                    self.trace.append([label, "fails-without-reuse-too", result["status"]])
                    return None
                res.violate("C11-b", f"{label}: the reuse run was refused ({result['status']}) after options {changed} changed, "
                            "but the stored results file was modified", sig="C11-b:refused-but-modified")
            return None
        new_state = self._observe(outdir)
        fresh_result, fresh_state = self._fresh_reference(work, step)
        if new_state is None or fresh_state is None:
            if fresh_state is None and fresh_result["status"] != "exit:0":
                # the new options are not usable on this input at all; nothing to compare against
                self.trace.append([label, "fresh-reference-failed", fresh_result["status"]])
                return new_state
            res["aborted"] = {"op": label, "error": "no-state"}
            return None
        hmm_changed = any(key in HMM_KEYS for key in changed)
        mismatches = []
        new_records = {r["id"]: r for r in new_state["json"]["records"]}
        for fresh_record in fresh_state["json"]["records"]:
            record = new_records.get(fresh_record["id"])
            if record is None:
                mismatches.append(f"record {fresh_record['id']} missing")
                continue
            for module, fresh_json in fresh_record.get("modules", {}).items():
                if module not in record.get("modules", {}):
                    mismatches.append(f"{fresh_record['id']}.modules.{module.rsplit('.', 1)[-1]} missing")
                elif json.dumps(record["modules"][module]) != json.dumps(fresh_json):
                    mismatches.append(f"{fresh_record['id']}.modules.{module.rsplit('.', 1)[-1]}")
            if hmm_changed and json.dumps(record.get("areas")) != json.dumps(fresh_record.get("areas")):
                mismatches.append(f"{fresh_record['id']}.areas")
        if mismatches:
            stale = [item for item in mismatches]
            res.violate("C11-b", f"{label}: options {changed} changed to {[step['options'][k] for k in changed]}; the reuse run "
                        f"succeeded but its results differ from a fresh analysis under the new options in {stale[:6]} "
                        f"(stored results were reinterpreted instead of being discarded or refused)\n"
                        f"{self._explain(fresh_state, new_state, 'json')}",
                        sig=f"C11-b:reinterpreted:{','.join(sorted(changed))}:{mismatches[0].split('.')[-1]}")
            return None
        res.probe("changed_options_equal_fresh")
        if any(event[3] == "none" for event in regen.values()):
            res.probe("recompute_observed")
        return new_state

    def _judge_schema(self, step: Dict[str, Any], result: Dict[str, Any], regen: Dict[Any, Any],
                      state: Dict[str, Any]) -> None:
        res = self.res
        target = step["schema_bump"]
        if target == "AntismashResults":
            if result["status"] == "exit:0":
                res.violate("C11-c", "results file written under another (incompatible) file schema version was reused "
                            "without complaint", sig="C11-c:schema:AntismashResults")
            else:
                res.probe("schema_bump_discarded")
            return
        module = MODULE_OF[target]
        stored = [record["id"] for record in state["json"]["records"] if module in record.get("modules", {})]
        if not stored:
            return
        for record_id in stored:
            event = regen.get((module, record_id))
            if event is None:
                continue
            if event[3] == "results":
                res.violate("C11-c", f"{target} schema version differs from the stored results of record {record_id}, but "
                            f"{module.rsplit('.', 1)[-1]} regenerated them instead of discarding or refusing",
                            sig=f"C11-c:schema:{target}")
                return
        if any(regen.get((module, record_id)) is not None for record_id in stored):
            res.probe("schema_bump_discarded")

    def _foreign_record(self, outdir: str, step: Dict[str, Any]) -> None:
        """ module results stored for record A offered to a different record B """
        from sim.world import pipeline as P
        res = self.res
        results_path = os.path.join(outdir, "input.json")
        sc = self.sc
        options_args = P.base_args(outdir)
        options_args.remove("--enable-tta")
        options_args += option_args(step["options"], sc["fungi"]) + ["--reuse-results", results_path]

        def body() -> List[Any]:
            import antismash.main as main
            from antismash.common import serialiser
            from antismash.config import build_config
            from sim.world import idhash
            idhash.install(step.get("salt", 0))
            options = build_config(options_args, isolated=True, modules=main.get_all_modules())
            results = serialiser.AntismashResults.from_file(results_path)
            out = []
            modules = {module.__name__: module for module in main.get_all_modules()}
            for index, (record, stored) in enumerate(zip(results.records, results.results)):
                # record B: another record of the analysis if there is one, else the same record renamed
                source_id = record.id
                if len(results.records) > 1 and step.get("salt", 0) % 2:
                    other = results.records[(index + 1) % len(results.records)]
                else:
                    # the same record under another id whose original id is the source's id, as pre-processing
                    # leaves the second of two input records that share an id
                    other = record
                    other.id = source_id + "_0"
                    other.original_id = source_id
                other.strip_antismash_annotations()
                for name, module_json in stored.items():
                    module = modules.get(name)
                    if module is None:
                        continue
                    try:
                        value = module.regenerate_previous_results(module_json, other, options)
                    except BaseException as err:  # pylint: disable=broad-except
                        out.append([name, source_id, other.id, f"raised:{type(err).__name__}"])
                        continue
                    if value is None:
                        out.append([name, source_id, other.id, "none"])
                        continue
                    out.append([name, source_id, other.id, f"results-for:{getattr(value, 'record_id', '?')}"])
                break
            return out
        outcome = P.fork_call(body)
        if isinstance(outcome, dict):
            res["aborted"] = {"op": "foreign", "error": "harness", "msg": str(outcome)[:300]}
            return
        self.trace.append(["foreign", outcome])
        for name, source, other, what in outcome:
            if what.startswith("results-for:"):
                # whatever record the regenerated results claim to be for, they were stored for another one.
                # TTA alone hands them back labelled with the source record and leaves the rejection to its
                # run_on_record, which compares the ids and recomputes
                # (terpene does the same: its run_on_record recomputes unless results.record_id == record.id)
                if name.rsplit(".", 1)[-1] in ("tta", "terpene") and what == f"results-for:{source}":
                    continue
                res.violate("C11-d", f"{name.rsplit('.', 1)[-1]} results stored for record {source} were regenerated against record "
                            f"{other} ({what})", sig=f"C11-d:foreign-record:{name.rsplit('.', 1)[-1]}")
                return
        if outcome:
            res.probe("foreign_record_discarded")

    def _faulted(self, work: str, outdir: str, step: Dict[str, Any], state: Dict[str, Any]) -> None:
        """ a failed invocation in the middle of the history: the next one must find the results as they were """
        from sim.engines.write_faults import arm_next_write
        spec = step["fault"]
        before = self._file_bytes(outdir)

        def hook(invocation: Dict[str, Any]) -> None:
            arm_next_write(invocation, spec)
        result = self.invocation(work, outdir, step, None, hooks=hook)
        self.trace.append(["faulted", result["status"]])
        self.res.fault("failed_invocation")
        self.res.probe("failed_invocation_in_history")
        after = self._file_bytes(outdir)
        if result["status"] != "exit:0" and after.get("input.json") != before.get("input.json"):
            self.res.violate("C11-e", "a failed invocation in the middle of the history modified the stored results file",
                             sig="C11-e:failed-run-modified-results")

    def _finish(self) -> RunResult:
        res = self.res
        res["steps"] = len(self.trace)
        res["digest"] = digest(self.trace)
        res["sig"] = digest([digest(self.sc["records"]), self.trace])
        res["nontrivial"] = bool(len(self.trace) >= 2 and (res["probes"].get("region_with_2_protoclusters")
                                                           or res["probes"].get("reuse_unchanged_ok")
                                                           or res["probes"].get("refusal_observed")))
        res["states"] = [digest(t)[:12] for t in self.trace]
        res["trace_head"] = self.trace[:6]
        return res


ENGINE = ReuseHistory()
