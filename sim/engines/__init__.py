""" Engine registry """

import importlib

_BY_PROPERTY = {
    "C06": "record_history",
    "C08": "record_history",
    "C11": "reuse_history",
    "C17": "hashseed",
    "C18": "pool",
    "C20": "write_faults",
}


def for_property(prop: str):
    if prop not in _BY_PROPERTY:
        raise SystemExit(f"no engine for property {prop}")
    module = importlib.import_module(f"sim.engines.{_BY_PROPERTY[prop]}")
    return module.ENGINE
