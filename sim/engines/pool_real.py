""" Gated real-pool leg of the pool engine: the unmodified multiprocessing.Pool with real
    forked workers.  Which chunk may finish next is decided by the scenario: every chunk's
    first task parks until the shared turn counter reaches the chunk's rank, and the chunk's
    last (or failing) task advances the counter.  Real processes, but only ever released one
    at a time, in an order that is a pure function of the scenario.
"""

import copy
import multiprocessing
import random
from typing import Any, Dict, List, Optional, Tuple

from sim.core.engine import RunResult
from sim.core.prng import digest

GATE: Dict[str, Any] = {}
WAIT_S = 8.0


def feasible_order(seed: Any, chunks: int, workers: int) -> List[int]:
    """ A completion order of chunk ids that a pool with `workers` workers can produce:
        the next chunk to finish is always one of those already started """
    rng = random.Random(f"order:{seed}")
    started = list(range(min(workers, chunks)))
    upcoming = len(started)
    order = []
    while started:
        pick = started.pop(rng.randrange(len(started)))
        order.append(pick)
        if upcoming < chunks:
            started.append(upcoming)
            upcoming += 1
    return order


def _gate_enter(position: int) -> None:
    size = GATE["chunksize"]
    if position % size != 0 or GATE["broken"].value:
        return
    rank = GATE["ranks"][position // size]
    cond = GATE["cond"]
    with cond:
        ok = cond.wait_for(lambda: GATE["turn"].value >= rank or GATE["broken"].value, timeout=WAIT_S)
        if not ok:
            GATE["broken"].value = 1
            cond.notify_all()


def _gate_exit(position: int, failed: bool) -> None:
    size = GATE["chunksize"]
    last = (position % size == size - 1) or position == GATE["count"] - 1
    if not (last or failed):
        return
    cond = GATE["cond"]
    with cond:
        GATE["turn"].value += 1
        cond.notify_all()


def gated_task(spec: dict, *extra: Any) -> Any:
    from sim.engines.pool_tasks import task
    _gate_enter(spec["i"])
    failed = True
    try:
        value = task(spec, *extra)
        failed = False
        return value
    finally:
        _gate_exit(spec["i"], failed)


def gated_record(position: int, name: str, record: Any) -> Any:
    from antismash.common import record_processing
    from sim.engines import pool_tasks
    func = {"sanitise": record_processing.sanitise_sequence, "identity": pool_tasks.identity_record,
            "touch": pool_tasks.touch_record}[name]
    _gate_enter(position)
    failed = True
    try:
        value = func(record)
        failed = False
        return value
    finally:
        _gate_exit(position, failed)


def _arm(count: int, workers: int, seed: Any) -> List[int]:
    chunksize, extra = divmod(count, workers * 4)
    if extra:
        chunksize += 1
    chunksize = max(chunksize, 1)
    chunks = (count + chunksize - 1) // chunksize
    order = feasible_order(seed, chunks, workers)
    ranks = [0] * chunks
    for rank, chunk in enumerate(order):
        ranks[chunk] = rank
    ctx = multiprocessing.get_context("fork")
    GATE.clear()
    GATE.update(chunksize=chunksize, count=count, ranks=ranks, cond=ctx.Condition(), turn=ctx.Value("i", 0),
                broken=ctx.Value("i", 0))
    return order


def execute(scenario: Dict[str, Any]) -> RunResult:
    from antismash.common.subprocessing import base
    from sim.engines import pool as pool_engine
    from sim.engines import pool_tasks
    from sim.world import idhash, simpool
    from sim.world.records import build_record, dump_record

    res = RunResult()
    tasks = scenario["tasks"]
    k = int(scenario["cpus"])
    count = len(tasks)
    workload = scenario["workload"]
    idhash.install(0)
    order = _arm(max(count, 1), max(k, 1), scenario.get("order_seed", 0))
    trace: List[Any] = [["order", order]]

    if workload == "generic":
        def make_args() -> List[List[Any]]:
            out = []
            for task in tasks:
                spec = {key: task.get(key) for key in ("i", "payload", "raise", "unpicklable_result", "mutate_arg")}
                extra = copy.deepcopy(task.get("extra", []))
                if task.get("unpicklable_arg"):
                    extra.append(lambda: None)
                out.append([spec] + extra)
            return out
        reference: List[Tuple[bool, Any]] = []
        for argset in make_args():
            try:
                reference.append((True, pool_tasks.task(*argset)))
            except Exception as err:  # pylint: disable=broad-except
                reference.append((False, type(err).__name__))
        expected: Optional[List[Any]] = [v for _, v in reference]
        any_raise = any(not ok for ok, _ in reference)
        blocking = k > 1 and any(t.get("unpicklable_arg") or t.get("unpicklable_result") for t in tasks)
        func: Any = gated_task
        args: Any = make_args()
    else:
        name = scenario.get("func", "sanitise")
        plain = {"sanitise": None, "identity": pool_tasks.identity_record, "touch": pool_tasks.touch_record}[name]
        if plain is None:
            from antismash.common.record_processing import sanitise_sequence as plain  # type: ignore
        expected = []
        for task in tasks:
            idhash.restart_serials()
            expected.append(dump_record(plain(build_record(task["spec"]))))
        any_raise = False
        blocking = False
        func = gated_record
        args = []
        for i, task in enumerate(tasks):
            idhash.restart_serials()
            record = build_record(task["spec"])
            if task.get("warm", True):
                record.get_cds_features()
                for feature in record.all_features:
                    getattr(feature, "cds_children", None)
            args.append([i, name, record])
    last_error = ""
    form = scenario.get("args_form", "list")
    if form in ("generator", "iterator"):
        args = iter(args)
    try:
        value = base.parallel_function(func, args, cpus=k, timeout=scenario.get("real_timeout", 120))
        outcome: Tuple[str, Any] = ("returned", value)
    except Exception as err:  # pylint: disable=broad-except
        outcome = ("raised", type(err).__name__)
        # which of several failing chunks reports first is decided by the pool's result pipe after
        # the gated section, so only the fact that it raised belongs to the repeatable trace
        trace.append(["exception"])
        last_error = f"{type(err).__name__}: {pool_engine._ADDRESS.sub('0x?', str(err))[:100]}"
    broken = bool(GATE["broken"].value)
    if broken:
        res.probe("real_gate_broken")
    res.probe("real_pool_run")
    if k > 1 and order != sorted(order):
        res.probe("out_of_order_completion")
        res.probe("real_out_of_order_completion")
    context = f"real pool k={k} n={count} completion order of chunks={order}"
    if outcome[0] == "returned":
        value = outcome[1]
        if workload != "generic" and isinstance(value, list):
            try:
                value = [dump_record(r) for r in value]
            except Exception as err:  # pylint: disable=broad-except
                res.violate("C18-r", f"a record returned from a real worker cannot be inspected: "
                            f"{type(err).__name__}: {err} ({context})",
                            sig=f"C18-r:returned-record-broken:{type(err).__name__}")
                value = None
        if value is None:
            pass
        elif any_raise or blocking:
            res.violate("C18-b", f"a call failed in a worker but parallel_function returned a list of "
                        f"{len(value) if isinstance(value, list) else '?'} ({context})",
                        sig="C18-b:returned-despite-task-exception")
        elif not isinstance(value, list) or len(value) != len(expected or []):
            res.violate("C18-a", f"result has {len(value) if hasattr(value, '__len__') else '?'} entries, sequential "
                        f"execution gives {len(expected or [])} ({context})", sig="C18-a:length")
        elif value != expected:
            wrong = [i for i, (a, b) in enumerate(zip(value, expected or [])) if a != b]
            permuted = sorted(map(repr, value)) == sorted(map(repr, expected or []))
            clause = "C18-a" if workload == "generic" or permuted else "C18-r"
            res.violate(clause, f"results differ from sequential execution at positions {wrong[:8]} "
                        f"({'a permutation' if permuted else 'different content'}; {context})",
                        sig=f"{clause}:{'reordered' if permuted else 'content'}")
    elif not any_raise and not blocking:
        res.violate("C18-c", f"parallel_function raised {outcome[1]} although every call succeeds sequentially "
                    f"({context}): {last_error}", sig=f"C18-c:spurious-exception:{outcome[1]}")
    trace.append(["outcome", outcome[0] if outcome[0] == "returned" else "raised"])

    # cross-check of the model: the same batch through SimPool must give the same outcome class
    if not res["violations"]:
        sim_scenario = copy.deepcopy(scenario)
        sim_scenario["leg"] = "sim"
        sim_scenario["timeout"] = None
        sim_scenario["followup"] = 0
        for task in sim_scenario["tasks"]:
            task.pop("kill", None)
            task.pop("stall", None)
        sim_result = pool_engine._Execution(sim_scenario).run()  # pylint: disable=protected-access
        sim_outcome = [t for t in sim_result.get("trace_head", []) if t and t[0] == "outcome"]
        sim_class = sim_outcome[0][1].split(":")[0] if sim_outcome else "?"
        if sim_result["violations"]:
            # the same batch under the simulated schedule is a run in its own right
            res["violations"].extend(sim_result["violations"])
        elif sim_class != outcome[0]:
            res["aborted"] = {"op": "simpool-fidelity", "error": "mismatch",
                              "msg": f"real={outcome[0]} sim={sim_class}"}
        else:
            res.probe("simpool_agrees_with_real_pool")
        simpool.install(None)  # type: ignore
    res["steps"] = len(order)
    res["nontrivial"] = bool(k > 1 and order != sorted(order))
    res["sig"] = digest(["real", workload, k, count, order, outcome[0]])
    res["states"] = [digest([k, count, order])[:12]]
    res["digest"] = digest(trace)
    res["trace_head"] = trace[:6]
    return res
