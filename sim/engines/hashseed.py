""" Engine `hashseed` (C17): the schedule is the pair (PYTHONHASHSEED of a freshly exec'ed
    interpreter, identity-hash salt).  The same scenario is executed under K such schedules
    and every stage's canonical dump must be identical.
"""

import atexit
import copy
import difflib
import json
import os
import random
import subprocess
import sys
import tempfile
import time
from typing import Any, Dict, Iterator, List, Optional

from sim.core.engine import Engine, RunResult
from sim.core.prng import digest, run_rng, weighted

VERIF = os.path.dirname(os.path.dirname(os.path.dirname(os.path.abspath(__file__))))
GC_ALPHABET = "GGGCCCAT"


def hash_seeds(seed: int, count: int) -> List[int]:
    rng = random.Random(f"hashseeds:{seed}")
    seeds = [0]
    while len(seeds) < count:
        value = rng.randrange(1, 2 ** 32 - 1)
        if value not in seeds:
            seeds.append(value)
    return seeds


def tie_groups(scenario: Dict[str, Any]) -> int:
    """ how many groups of >= 2 items the scenario contains that tie on the primary sort key of the stage
        they feed (equal start of hits on one gene, equal scores of overlapping hits, equal core start or
        equal location of protoclusters, genes hit by several profiles / rules): the measured basis of
        'non-trivial' for this engine """
    from collections import Counter
    kind = scenario["kind"]
    if kind in ("refine", "hmmer_overlap"):
        counts = Counter((hit["cds"], hit["start"]) for hit in scenario["hits"])
    elif kind == "filter":
        counts = Counter((hit["cds"], hit["bitscore"]) for hit in scenario["hits"])
    elif kind == "candidates":
        protos = scenario["record"]["protos"]
        counts = Counter(("loc", str(p["loc"])) for p in protos) + Counter(("core", p["core"][0][0]) for p in protos)
    elif kind == "detect":
        counts = Counter(hit["cds"] for hit in scenario["hits"])
    else:
        counts = Counter((hit["cds"], hit["bitscore"]) for hit in scenario["hits"])
        for table in scenario.get("domain_hits", {}).values():
            counts += Counter((hit["cds"], hit["start"]) for hit in table)
    return sum(1 for value in counts.values() if value >= 2)


def _stage_class(kind: str, stage: str) -> str:
    if stage.startswith("file:"):
        name = stage[5:]
        if name.endswith(".json"):
            return "results-json"
        if ".region" in name:
            return "region-genbank"
        if name.endswith(".gbk"):
            return "summary-genbank"
        return "other-file"
    return stage


class HashSeedEngine(Engine):
    name = "hashseed"
    properties = ("C17",)
    real_components = ["antismash.common.hmmscan_refinement.refine_hmmscan_results", "antismash.common.hmmer.remove_overlapping",
                       "cluster_prediction.filter_results / filter_result_multiple",
                       "secmet Record.create_candidate_clusters / create_regions / to_biopython, serialiser.gather_record_areas",
                       "the whole antismash.main.run_antismash pipeline (hmm_detection with the shipped rule files, "
                       "nrps_pks_domains, sideloader, cluster_hmmer / full_hmmer / pfam2go, tigrfam, genefunctions (smCOG, resistance, "
                       "extras, MITE), t2pks, terpene, rrefinder, tfbs_finder, tta, serialiser, GenBank writers) in forked "
                       "child processes",
                       "CPython string hashing under K different PYTHONHASHSEED values (fresh interpreters)"]
    stub_components = ["hmmsearch / hmmscan -> in-process fakes returning the scenario's hit table",
                       "memory layout -> Feature.__hash__ and fake HSP hash replaced by salted creation serials; allocator state "
                       "perturbed by the salt before each stage and at each fake tool call",
                       "diamond -> in-process fake (MITE lookup); halogenase tool runs but never gets a hit; "
                       "Pfam / TIGRFam / Resfams / MITE databases -> generated files in the scratch database directory",
                       "wall clock -> simulated clock", "database directory -> scratch directory",
                       "utils.get_hmm_lengths for the emptied NRPS/PKS profile file -> lengths from the scenario"]
    rule = ("one run = one generated scenario (tie-rich hit multisets for hmmscan refinement / hmmer overlap removal / "
            "equivalence-group filtering, protocluster layouts with identical coordinates and shared defining genes, or a "
            "whole multi-record pipeline input with hit tables against the shipped rules) executed under K schedules "
            "(PYTHONHASHSEED h_j of a fresh interpreter, identity-hash salt s_j); all K canonical dumps of every stage "
            "must be equal. non-trivial = the scenario contains at least one tie group (equal start / equal score / "
            "equal coordinates); distinct = digest of the scenario")
    assumptions = [
        "PYTHONHASHSEED plus a salted per-object serial in place of address-based hashes spans the set/dict iteration "
        "orders CPython can produce; C-level nondeterminism in dependencies is out of scope",
        "a k-way tie escapes K schedules with probability about k^(1-K) per tie",
        "timestamps are excluded by running on a simulated clock; the zip archive is excluded (member mtimes)",
    ]

    def __init__(self) -> None:
        self._servers: Dict[int, subprocess.Popen] = {}
        atexit.register(self._shutdown)

    def tier_config(self, prop: str, tier: str) -> Dict[str, Any]:
        if tier == "quick":
            return {"runs": 1600, "k": 8, "deadline_s": 600, "shrink_s": 90, "level": "exploration", "max_reports": 3,
                    "pipeline_weight": 3.0, "expected_probes": EXPECTED_PROBES}
        return {"runs": 24000, "k": 16, "deadline_s": 3400, "shrink_s": 300, "level": "exploration", "max_reports": 6,
                "pipeline_weight": 3.0, "expected_probes": EXPECTED_PROBES}

    # ------------------------------------------------------------ generation
    def generate(self, rng, cfg: Dict[str, Any], prop: str) -> Dict[str, Any]:
        kind = weighted(rng, [("refine", 3), ("hmmer_overlap", 1), ("filter", 2), ("candidates", 3), ("detect", 3),
                              ("pipeline", float(cfg.get("pipeline_weight", 1.0)))])
        scenario = getattr(self, f"_gen_{kind}")(rng)
        scenario["kind"] = kind
        if kind == "pipeline" and rng.random() < 0.25:
            from sim.engines.write_faults import ENGINE as WRITE_FAULTS
            scenario["sideload"] = WRITE_FAULTS._gen_sideload(rng, scenario["records"])  # pylint: disable=protected-access
        k = int(cfg.get("k", 8))
        scenario["salts"] = [0] + [rng.randrange(1, 1 << 30) for _ in range(k - 1)]
        return scenario

    def _gen_refine(self, rng) -> Dict[str, Any]:
        profiles = rng.sample(["A", "B", "C", "D", "PKS_KS", "PKS_AT", "ACP"], rng.randint(2, 5))
        hits = []
        for c in range(rng.randint(1, 3)):
            starts = [rng.choice([0, 5, 10, 40, 80]) for _ in range(3)]
            for _ in range(rng.randint(2, 8)):
                start = rng.choice(starts)
                hits.append({"cds": f"cds{c}", "profile": rng.choice(profiles), "start": start,
                             "end": start + rng.choice([20, 40, 60]), "evalue": rng.choice([1e-10, 1e-20]),
                             "bitscore": rng.choice([50.0, 50.0, 80.0])})
        return {"hits": hits, "lengths": {p: rng.choice([30, 60, 100]) for p in ["A", "B", "C", "D", "PKS_KS", "PKS_AT", "ACP"]}}

    def _gen_hmmer_overlap(self, rng) -> Dict[str, Any]:
        profiles = ["PF1", "PF2", "PF3", "PF4"]
        hits = []
        seen = set()
        for _ in range(rng.randint(2, 9)):
            start = rng.choice([0, 5, 10, 30, 60])
            hit = {"cds": "cds0", "profile": rng.choice(profiles), "label": "l", "start": start,
                   "end": start + rng.choice([20, 40]), "evalue": 1e-10, "bitscore": rng.choice([30.0, 30.0, 60.0])}
            key = (hit["profile"], hit["start"], hit["end"], hit["bitscore"])
            if key in seen:
                continue
            seen.add(key)
            hits.append(hit)
        return {"hits": hits, "cutoffs": {p: rng.choice([10.0, 20.0]) for p in profiles},
                "overlap_limit": rng.choice([5, 10])}

    def _gen_filter(self, rng) -> Dict[str, Any]:
        group = ["PKS_KS", "bt1fas", "ft1fas", "t2ks", "hglD"]
        others = ["PKS_AT", "Condensation"]
        hits = []
        seen = set()
        for c in range(rng.randint(1, 3)):
            for _ in range(rng.randint(2, 7)):
                start = rng.choice([0, 10, 50, 120])
                hit = {"cds": f"cds{c}", "profile": rng.choice(group + others), "start": start,
                       "end": start + rng.choice([40, 80, 150]), "evalue": 1e-10,
                       "bitscore": rng.choice([60.0, 60.0, 90.0])}
                key = (hit["cds"], hit["profile"], hit["start"], hit["end"])
                if key in seen:     # hmmsearch never reports the same domain of the same profile twice
                    continue
                seen.add(key)
                hits.append(hit)
        return {"hits": hits, "equivalence_groups": [group, ["PKS_AT", "Condensation"]]}

    def _gen_candidates(self, rng) -> Dict[str, Any]:
        length = rng.choice([120, 200, 400])
        circular = rng.random() < 0.4
        products = ["T1PKS", "NRPS", "terpene", "lanthipeptide-class-i"]
        genes = []
        pos = 2
        g = 0
        while pos + 12 < length and g < 14:
            size = rng.choice([6, 9, 12])
            genes.append({"name": f"g{g}", "parts": [[pos, pos + size]], "strand": rng.choice([1, -1]),
                          "cores": [p for p in products if rng.random() < 0.35]})
            pos += size + rng.choice([0, 2, 6])
            g += 1
        protos = []
        for _ in range(rng.randint(2, 6)):
            if protos and rng.random() < 0.45:
                # identical coordinates but another product: exact duplicates (same location, core and
                # product) are interchangeable and cannot come out of rule detection, so they are not generated
                base = rng.choice(protos)
                taken = {p["product"] for p in protos if p["loc"] == base["loc"] and p["core"] == base["core"]}
                free = [p for p in products if p not in taken]
                if free:
                    protos.append({"core": base["core"], "loc": base["loc"], "product": rng.choice(free), "cutoff": 5})
                continue
            if circular and rng.random() < 0.3:
                # core and neighbourhood crossing the origin, cores sharing starts with others
                upper = rng.choice([6, 14, 21])
                lower = rng.choice([14, 33])
                core = [[length - upper, length], [0, lower]]
                extra = rng.choice([0, 0, 23])
                loc = [[length - upper - extra, length], [0, lower]]
                product = rng.choice(products)
                if not any(p["loc"] == loc and p["core"] == core and p["product"] == product for p in protos):
                    protos.append({"core": core, "loc": loc, "product": product, "cutoff": 5})
                continue
            anchor = rng.choice(genes)["parts"][0]
            if circular and rng.random() < 0.3:
                start = length - rng.choice([14, 14, 21])       # plain cores near the end, sharing starts
                anchor = [start, start + rng.choice([7, 10])]
            core = [[anchor[0], min(length, anchor[1] + rng.choice([0, 10, 30]))]]
            dist = rng.choice([0, 5, 20, 400])
            loc = [[max(0, core[0][0] - dist), min(length, core[0][1] + dist)]]
            if circular and rng.random() < 0.4:
                # neighbourhood wrapping over the origin, up to nearly the whole record
                gap = rng.choice([1, 5, 30])
                gap_start = rng.choice([g for g in (core[0][1] + 2, core[0][0] - gap - 2) if 0 < g < length - gap] or [0])
                if gap_start and not (gap_start < core[0][1] and gap_start + gap > core[0][0]):
                    loc = [[gap_start + gap, length], [0, gap_start]]
                    if not any(p[0] <= core[0][0] and core[0][1] <= p[1] for p in loc):
                        loc = [[0, length]]
            product = rng.choice(products)
            if any(p["loc"] == loc and p["core"] == core and p["product"] == product for p in protos):
                continue
            protos.append({"core": core, "loc": loc, "product": product, "cutoff": 5})
        if circular and rng.random() < 0.5:
            # a scene around the origin: hybrids whose combined core crosses the origin (they share the
            # first gene as defining gene) plus protoclusters near the end whose cores share a start
            shared = rng.sample(products, rng.randint(1, 3))
            genes[0]["cores"] = sorted(set(genes[0]["cores"]) | set(shared))
            first_end = genes[0]["parts"][0][1]
            for _ in range(rng.randint(2, 3)):
                upper = rng.choice([6, 14, 21])
                lower = first_end + rng.choice([0, 4, 19])
                core = [[length - upper, length], [0, lower]]
                extra = rng.choice([0, 0, 23])
                candidate = {"core": core, "loc": [[length - upper - extra, length], [0, lower]],
                             "product": rng.choice(shared), "cutoff": 5}
                if not any(p["loc"] == candidate["loc"] and p["core"] == core and p["product"] == candidate["product"]
                           for p in protos):
                    protos.append(candidate)
            start = length - rng.choice([10, 14])
            # (half of the time all of one product and mostly with the same neighbourhood over the origin: then only
            # the cores tell them apart)
            scene_product = rng.choice(products) if rng.random() < 0.5 else None
            for size in rng.sample([3, 5, 7, 10], rng.randint(1, 3)):
                core = [[start, start + size]]
                over = [[start - 30, length], [0, 26]]
                candidate = {"core": core, "loc": rng.choice([core, over, over] if scene_product else [core, over]),
                             "product": scene_product or rng.choice(products), "cutoff": 5}
                # the same rule about exact duplicates applies here
                if not any(p["loc"] == candidate["loc"] and p["core"] == core and p["product"] == candidate["product"]
                           for p in protos):
                    protos.append(candidate)
            rng.shuffle(protos)
        if rng.random() < 0.3:
            # no defining genes at all (so no chemical hybrids): chains of overlapping cores that share starts
            for gene in genes:
                gene["cores"] = []
            protos = []
            base = rng.choice([30, 40, 60])
            if rng.random() < 0.6:
                # the tie-rich family: one long core, two or three short cores sharing its start (told apart
                # only by neighbourhood or product), and a core starting exactly where the short ones end
                short = rng.choice([5, 10])
                family = [[[base, base + rng.choice([40, 50])]]] + [[[base, base + short]]] * rng.randint(2, 3) \
                    + [[[base + short, base + rng.choice([60, 80])]]]
                rng.shuffle(family)
                # groups of overlapping cores are merged in the order of their leftmost neighbourhood start, so the
                # neighbourhoods matter: the short cores share one (a tie), the others reach less or much further left
                short_left = rng.choice([0, 10])
                for core in family:
                    if core[0][1] - core[0][0] == short:
                        left = short_left
                    else:
                        left = rng.choice([0, 0, 10, base])
                    right = rng.choice([0, 10, 50])
                    candidate = {"core": core, "loc": [[max(0, core[0][0] - left), min(length, core[0][1] + right)]],
                                 "product": rng.choice(products), "cutoff": 5}
                    if not any(p["loc"] == candidate["loc"] and p["core"] == core and p["product"] == candidate["product"]
                               for p in protos):
                        protos.append(candidate)
            for _ in range(rng.randint(0 if protos else 3, 3)):
                # short cores sharing a start, longer ones bridging them, cores that only touch end to start
                start = rng.choice([base, base, base, base + 10, base + 10, base + 30])
                core = [[start, min(length, start + rng.choice([10, 10, 50, 70]))]]
                dist = rng.choice([0, 10, 20])
                candidate = {"core": core, "loc": [[max(0, core[0][0] - dist), min(length, core[0][1] + dist)]],
                             "product": rng.choice(products), "cutoff": 5}
                if not any(p["loc"] == candidate["loc"] and p["core"] == core and p["product"] == candidate["product"]
                           for p in protos):
                    protos.append(candidate)
        subs = []
        if circular and rng.random() < 0.6:
            # an unrelated area in the middle of the record and several small areas at its very end, so that
            # region creation has to merge its first (origin-crossing) and last sections
            middle = length // 2
            subs.append({"loc": [[middle - 4, middle + 4]], "label": "mid"})
            for i in range(rng.randint(1, 3)):
                start = length - rng.choice([12, 9, 7])
                subs.append({"loc": [[start, start + rng.choice([3, 4, 5])]], "label": f"end{i}"})
            if not any(len(p["loc"]) == 2 for p in protos):
                subs.append({"loc": [[length - 6, length], [0, 5]], "label": "cross"})
        if rng.random() < 0.3:
            start = rng.randrange(0, length - 20)
            subs.append({"loc": [[start, start + 20]], "label": "s"})
        return {"record": {"id": "rec", "seq": "A" * length, "circular": circular, "genes": genes, "protos": protos,
                           "subs": subs}}

    def _gen_detect(self, rng) -> Dict[str, Any]:
        """ a generated rule set (cutoffs of 1-5 kb, SUPERIORS / RELATED relations, cds() / minimum() conditions)
            over four profiles, on a 20-60 kb record with overlapping genes, some of them spanning the origin """
        length = rng.choice([20000, 40000, 60000])
        circular = rng.random() < 0.7
        profiles = ["pA", "pB", "pC", "pD"]
        genes = []
        pos = rng.choice([0, 500])
        g = 0
        while g < 14:
            size = rng.choice([600, 900, 1500])
            if pos + size > length - (1500 if circular else 0):
                break
            genes.append({"name": f"g{g}", "parts": [[pos, pos + size]], "strand": rng.choice([1, -1]), "cores": []})
            pos += size + rng.choice([-300, 0, 300, 2500, 6000])
            pos = max(pos, 0)
            g += 1
        if circular:
            for i in range(rng.choice([0, 1, 2, 2])):       # genes spanning the origin, possibly overlapping each other
                upper = rng.choice([300, 600, 1200])
                lower = rng.choice([300, 600, 3000])
                strand = rng.choice([1, -1])
                parts = [[length - upper, length], [0, lower]]
                if strand == -1:
                    parts.reverse()
                if not any(sorted(map(tuple, gene["parts"])) == sorted(map(tuple, parts)) for gene in genes):
                    genes.append({"name": f"x{i}", "parts": parts, "strand": strand, "cores": []})
        seen = set()
        unique = []
        for gene in genes:                      # no two genes may have the same location
            key = str(sorted(map(tuple, gene["parts"])))
            if key not in seen:
                seen.add(key)
                unique.append(gene)
        genes = unique
        hits = []
        for gene in genes:
            for profile in profiles:
                if rng.random() < (0.45 if gene["name"].startswith("x") else 0.22):
                    hits.append({"cds": gene["name"], "profile": profile, "bitscore": rng.choice([50, 50, 80])})
        conditions = ["pA", "pB", "pC", "pD", "pA or pB", "pA and pB", "cds(pA and pB)", "pC and not pD",
                      "minimum(2, [pA, pB, pC])", "cds(pC or pD)", "pB and cds(pC and not pA)"]
        names = ["alpha", "beta", "gamma", "delta", "epsilon"][:rng.randint(2, 5)]
        text = []
        for index, name in enumerate(names):
            text.append(f"RULE {name}")
            text.append(f"    CATEGORY {rng.choice(['CatA', 'CatB'])}")
            if rng.random() < 0.2:
                text.append(f"    RELATED {rng.choice(profiles)}")
            if index and rng.random() < 0.5:
                text.append(f"    SUPERIORS {', '.join(rng.sample(names[:index], rng.randint(1, min(2, index))))}")
            text.append(f"    CUTOFF {rng.choice([1, 2, 5])}")
            text.append(f"    NEIGHBOURHOOD {rng.choice([1, 2, 5])}")
            text.append(f"    CONDITIONS {rng.choice(conditions)}")
            text.append("")
        scenario = {"record": {"id": "rec", "seq": "A" * length, "circular": circular, "genes": genes},
                    "hits": hits, "profiles": profiles, "categories": ["CatA", "CatB"], "rules": "\n".join(text)}
        return scenario

    def _gen_pipeline(self, rng) -> Dict[str, Any]:
        from sim.world.pipeline import (DETECTION_PROFILES, DOMAIN_PROFILES, MAIN_DOMAINS, MITE_ENTRIES, PFAM_PROFILES,
                                        RESFAM_PROFILES, T2PKS_PROFILES, TIGR_PROFILES, extras_profiles,
                                        module_layout, rre_profiles, smcog_profiles, terpene_profiles)
        records = []
        hits = []
        domain_hits = []
        explicit_subtypes: List[Dict[str, Any]] = []
        with_domains = set()
        profiles = sorted(DETECTION_PROFILES)
        combos = [["PKS_AT", "PKS_KS"], ["Condensation", "AMP-binding"], ["t2ks", "t2clf"], ["LANC_like", "Lant_dehydr_N", "Lant_dehydr_C"],
                  ["Chal_sti_synt_C"], ["PUFA_KS"], ["APE_KS1"], ["phytoene_synt"], ["DarB"], ["PKS_AT", "tra_KS"],
                  ["t2ks", "t2clf"], ["t2clf", "t2ks"], ["phytoene_synt"]]
        straddling: List[List[str]] = []
        for r in range(rng.choice([1, 1, 2])):
            # (mostly records shorter than any rule's neighbourhood: one region covers them entirely; on the long
            # ones a region near the start of a circular record reaches back over the origin instead)
            length = rng.choice([4000, 8000, 8000, 12000, 12000, 60000, 60000])
            seq = "".join(rng.choice(GC_ALPHABET) for _ in range(length))
            genes = []
            circular = rng.random() < 0.4
            spanning = None
            if circular and rng.random() < 0.5:
                # a gene spanning the origin; its two parts need not be whole codons each (a codon may straddle
                # the origin), the other genes lie between its two parts
                upper = rng.choice([300, 301, 599, 600])
                lower = rng.choice([300, 600, 900]) + (-upper) % 3
                strand = rng.choice([1, -1])
                parts = [[length - upper, length], [0, lower]]
                if strand == -1:
                    parts.reverse()
                spanning = {"name": f"r{r}x", "parts": parts, "strand": strand}
            pos = rng.choice([0, 50]) + (spanning["parts"][1 if spanning["strand"] == 1 else 0][1] if spanning else 0)
            limit = length - (max(e - b for b, e in spanning["parts"] if e == length) if spanning else 0)
            g = 0
            while g < 16:
                size = rng.choice([300, 600, 900, 1500, 2400])
                if length >= 60000 and g == 8:
                    pos = max(pos, limit - rng.choice([9000, 15000, 22000]))    # the other half sits at the far end
                if pos + size > limit:
                    break
                genes.append({"name": f"r{r}g{g}", "parts": [[pos, pos + size]], "strand": rng.choice([1, -1])})
                pos += size + rng.choice([0, 30, 300])
                g += 1
            if spanning and genes:
                genes.append(spanning)
            records.append({"id": f"REC{r}", "seq": seq, "circular": circular, "genes": genes})
            quiet = rng.random() < 0.22
            if quiet:
                # a record on which no rule fires: lone profile hits only (its genes matter only inside sideloaded
                # areas, as genes with hits outside of every protocluster)
                for gene in rng.sample(genes, min(len(genes), rng.randint(2, 5))):
                    hits.append({"cds": gene["name"], "profile": rng.choice(["PKS_KS", "Condensation", "t2ks", "LANC_like",
                                                                             "PP-binding", "hglD"]),
                                 "bitscore": rng.choice([600, 600, 800]), "evalue": 1e-30, "start": 1, "end": 60,
                                 "qstart": 1, "qend": 60})
            for _ in range(0 if quiet else rng.randint(1, 4)):
                combo = rng.choice(combos)
                targets = [rng.choice(genes)] if rng.random() < 0.6 else rng.sample(genes, min(len(genes), len(combo)))
                if length >= 60000 and circular and len(combo) >= 2 and rng.random() < 0.7:
                    # the defining genes of one cluster on either side of the origin of a long circular record
                    plain = [gene for gene in genes if len(gene["parts"]) == 1]
                    near = [gene for gene in plain if gene["parts"][0][1] < 12000]
                    far = [gene for gene in plain if gene["parts"][0][0] > length - 12000]
                    if near and far:
                        targets = [rng.choice(near), rng.choice(far)]
                        straddling.append(combo)
                for j, profile in enumerate(combo):
                    gene = targets[j % len(targets)]
                    aa = sum(e - b for b, e in gene["parts"]) // 3
                    start = rng.choice([s for s in (1, 1, 30, 110, 190) if s + 45 < aa] or [1])
                    hits.append({"cds": gene["name"], "profile": profile, "bitscore": rng.choice([600, 600, 800]),
                                 "evalue": 1e-30, "start": start, "end": min(aa - 1, start + rng.choice([40, 60])),
                                 "qstart": 1, "qend": 60})
                    if profile in ("PKS_KS", "PKS_AT", "Condensation", "AMP-binding", "tra_KS") and aa >= 200 \
                            and gene["name"] not in with_domains:
                        with_domains.add(gene["name"])
                        if rng.random() < 0.5:
                            layout = (["PKS_KS", "PKS_AT", "ACP"] if profile.startswith("PKS") or profile == "tra_KS"
                                      else ["Condensation_LCL", "AMP-binding", "PCP"])
                            if rng.random() < 0.3:
                                layout = layout + [rng.choice(["Thioesterase", "PKS_KR", "Epimerization"])]
                        else:
                            layout = module_layout(rng)
                        width = max(12, min(45, (aa - 4) // max(1, len(layout)) - 3))
                        offset = 2
                        for entry in layout:
                            name, subtype = entry if isinstance(entry, tuple) else (entry, None)
                            if offset + width >= aa:
                                break
                            domain_hits.append({"cds": gene["name"], "profile": name, "bitscore": rng.choice([100, 100, 200]),
                                                "evalue": 1e-20, "start": offset, "end": offset + width})
                            if subtype:
                                explicit_subtypes.append({"cds": gene["name"], "profile": subtype, "bitscore": 120,
                                                          "evalue": 1e-15, "start": offset, "end": offset + width})
                            if rng.random() < 0.1:  # a competing hit with the same start and score
                                domain_hits.append({"cds": gene["name"], "profile": rng.choice(MAIN_DOMAINS),
                                                    "bitscore": domain_hits[-1]["bitscore"], "evalue": 1e-20,
                                                    "start": offset, "end": offset + width})
                            offset += width + rng.choice([0, 3])
            if rng.random() < 0.3:
                for _ in range(rng.randint(1, 3)):
                    gene = rng.choice(genes)
                    hits.append({"cds": gene["name"], "profile": rng.choice(profiles), "bitscore": 600, "evalue": 1e-30,
                                 "start": 1, "end": 60, "qstart": 1, "qend": 60})
        lengths = {name: 20 for name in DOMAIN_PROFILES}
        # KS subtypes: hits of the subtype database inside PKS_KS domains become internal hits
        subtype_hits = list(explicit_subtypes)
        covered = {(hit["cds"], hit["start"]) for hit in explicit_subtypes}
        for hit in domain_hits:
            if hit["profile"] == "PKS_KS" and (hit["cds"], hit["start"]) not in covered and rng.random() < 0.5:
                subtype_hits.append({"cds": hit["cds"], "profile": rng.choice(["Hybrid-KS", "Modular-KS", "Iterative-KS", "Enediyne-KS"]),
                                     "bitscore": rng.choice([90, 90, 150]), "evalue": 1e-15,
                                     "start": hit["start"] + rng.choice([0, 2]), "end": hit["end"] - rng.choice([0, 3])})
        extra: List[str] = []
        if rng.random() < 0.3:
            extra += ["--hmmdetection-strictness", rng.choice(["strict", "loose"])]
        if rng.random() < (0.6 if straddling else 0.2):
            # detection limited to some rules (their cutoffs differ: 5 to 20 kb and more)
            names = ["T1PKS", "NRPS", "T2PKS", "T3PKS", "terpene", "lanthipeptide-class-i", "PUFA", "arylpolyene", "resorcinol",
                     "hglE-KS", "transAT-PKS", "NRPS-like", "CDPS", "ladderane", "PpyS-KS"]
            chosen = rng.sample(names, rng.randint(3, 9))
            fired = {"PKS_AT+PKS_KS": "T1PKS", "Condensation+AMP-binding": "NRPS", "t2ks+t2clf": "T2PKS", "t2clf+t2ks": "T2PKS",
                     "LANC_like+Lant_dehydr_N+Lant_dehydr_C": "lanthipeptide-class-i", "PKS_AT+tra_KS": "transAT-PKS"}
            for combo in straddling:     # (the rules of clusters laid over the origin are among them)
                rule = fired.get("+".join(combo))
                if rule and rule not in chosen:
                    chosen.append(rule)
            extra += ["--hmmdetection-limit-to-rule-names", ",".join(chosen)]
        # transcription factor binding site search: pure python (MOODS), scans the sequence itself
        if rng.random() < 0.3:
            extra += ["--tfbs", "--tfbs-pvalue", rng.choice(["0.00001", "0.0005", "0.002"]), "--tfbs-range",
                      rng.choice(["50", "120"])]
        # HMMer based domain annotation (Pfam) of clusters / the whole record, and the GO term mapping on top
        pfam_hits = []
        if rng.random() < 0.5:
            extra += rng.choice([["--clusterhmmer"], ["--clusterhmmer", "--pfam2go"], ["--fullhmmer"],
                                 ["--clusterhmmer", "--fullhmmer", "--pfam2go"]])
            names = sorted(PFAM_PROFILES)
            for record in (records if rng.random() < 0.75 else []):    # sometimes a search without a single hit
                for gene in record["genes"]:
                    aa = sum(e - b for b, e in gene["parts"]) // 3
                    for _ in range(rng.choice([0, 1, 1, 2, 3])):
                        start = rng.choice([2, 10, 10, 40])
                        end = start + rng.choice([30, 30, 45])
                        if end >= aa:
                            continue
                        hit = {"cds": gene["name"], "profile": rng.choice(names), "start": start, "end": end,
                               "bitscore": rng.choice([30.0, 30.0, 55.0]), "evalue": rng.choice([1e-8, 1e-8, 1e-3])}
                        # hmmscan never reports the same domain of one profile twice
                        if not any(all(other[key] == hit[key] for key in ("cds", "profile", "start", "end"))
                                   for other in pfam_hits):
                            pfam_hits.append(hit)
        # type II PKS analysis of T2PKS protoclusters (profiles <type>_<function>, classes intersected over genes)
        t2pks_hits = []
        anchors = sorted({hit["cds"] for hit in hits if hit["profile"] in ("t2ks", "t2clf")})
        if anchors and rng.random() < 0.8:
            extra += ["--enable-t2pks"]
            by_name = {gene["name"]: gene for record in records for gene in record["genes"]}
            for position, name in enumerate(anchors):
                aa = sum(e - b for b, e in by_name[name]["parts"]) // 3
                for attempt in range(rng.randint(1, 2)):
                    start = rng.choice([2, 50])
                    if start + 45 < aa:
                        # (the first one is a chain length factor more often than not: without an elongation
                        # prediction there are no molecular weights)
                        names = T2PKS_PROFILES if position or attempt or rng.random() < 0.3 else \
                            [p for p in T2PKS_PROFILES if p.startswith("CLF")]
                        hit = {"cds": name, "profile": rng.choice(names), "start": start, "end": start + 45,
                               "bitscore": rng.choice([80, 80, 120]), "evalue": 1e-20}
                        if not any(o["cds"] == name and o["start"] == start for o in t2pks_hits):
                            t2pks_hits.append(hit)
            # tailoring enzymes on the other genes of those records (the cluster's molecular weight is a sum over
            # all of them: several different kinds have to be present for the order of summation to matter)
            tailoring = [name for name in T2PKS_PROFILES if name.split("_")[0] in ("KR", "CYC", "MET", "GT", "HAL")]
            for record in records:
                if not any(gene["name"] in anchors for gene in record["genes"]):
                    continue
                for gene in record["genes"]:
                    aa = sum(e - b for b, e in gene["parts"]) // 3
                    if gene["name"] not in anchors and aa > 60 and rng.random() < 0.6:
                        t2pks_hits.append({"cds": gene["name"], "profile": rng.choice(tailoring), "start": 2, "end": 47,
                                           "bitscore": rng.choice([80, 80, 120]), "evalue": 1e-20})
        # terpene analysis of terpene protoclusters: complete, high scoring hits of the module's own profiles
        terpene_hits = []
        anchors = sorted({hit["cds"] for hit in hits if hit["profile"] == "phytoene_synt"})
        if anchors and rng.random() < 0.85:
            extra += ["--enable-terpene"]
            known = terpene_profiles()
            by_name = {gene["name"]: gene for record in records for gene in record["genes"]}
            for name in anchors:
                aa = sum(e - b for b, e in by_name[name]["parts"]) // 3
                chosen = [rng.choice(known) for _ in range(rng.randint(1, 3))]
                if rng.random() < 0.7:
                    # several subtypes of one main type on top of each other: one domain prediction with a list
                    # of subtypes and merged reactions
                    family = [p for p in known if p["type"] == rng.choice(known)["type"]]
                    chosen = rng.sample(family, min(len(family), rng.randint(2, 3)))
                for profile in chosen:
                    span = int(profile["length"] * 0.7)
                    start = rng.choice([2, 2, 12])
                    if start + span < aa:
                        terpene_hits.append({"cds": name, "profile": profile["name"], "start": start, "end": start + span,
                                             "bitscore": profile["cutoff"] + rng.choice([50, 50, 200]), "evalue": 1e-40})
        all_genes = [gene for record in records for gene in record["genes"]]

        def gene_hits(names: List[str], per_gene: List[int], scores: List[float], spans: List[int],
                      starts: List[int]) -> List[Dict[str, Any]]:
            """ hits of one database over all genes; equal starts and scores on purpose """
            table: List[Dict[str, Any]] = []
            for gene in all_genes:
                aa = sum(e - b for b, e in gene["parts"]) // 3
                for _ in range(rng.choice(per_gene)):
                    start = rng.choice(starts)
                    end = start + rng.choice(spans)
                    if end >= aa:
                        continue
                    hit = {"cds": gene["name"], "profile": rng.choice(names), "start": start, "end": end,
                           "bitscore": rng.choice(scores), "evalue": 1e-20}
                    # the same domain of one profile is never reported twice
                    if not any(all(o[k] == hit[k] for k in ("cds", "profile", "start", "end")) for o in table):
                        table.append(hit)
            return table
        # TIGRFam annotation of the genes in regions (same machinery as Pfam, another database, no overlap filter)
        tigr_hits: List[Dict[str, Any]] = []
        if rng.random() < 0.25:
            extra += ["--tigrfam"]
            tigr_hits = gene_hits(sorted(TIGR_PROFILES), [0, 1, 1, 2], [28.0, 45.0, 45.0], [30, 45], [2, 10, 10, 40])
        # gene functions: smCOGs, resistance, 'extras' (best hit per gene after refinement), MITE (best identity)
        smcog_hits: List[Dict[str, Any]] = []
        resfam_hits: List[Dict[str, Any]] = []
        extras_hits: List[Dict[str, Any]] = []
        mite_hits: List[Dict[str, Any]] = []
        if rng.random() < 0.3:
            extra += ["--enable-genefunctions"]
            smcog_hits = gene_hits([p["name"] for p in smcog_profiles()], [0, 1, 2, 3], [120.0, 120.0, 300.0], [40, 55],
                                   [2, 2, 30])
            resfam_hits = gene_hits(sorted(RESFAM_PROFILES), [0, 0, 1, 2], [60.0, 60.0, 90.0], [40, 55], [2, 2, 30])
            known_extras = extras_profiles()
            for hit in gene_hits([p["name"] for p in known_extras], [0, 1, 1, 2], [0.0], [40, 55], [2, 2, 30]):
                cutoff = next(p["cutoff"] for p in known_extras if p["name"] == hit["profile"])
                hit["bitscore"] = cutoff + rng.choice([-5.0, 0.0, 20.0, 20.0])     # below, at and above the cutoff
                extras_hits.append(hit)
            for gene in all_genes:
                for entry in rng.sample(sorted(MITE_ENTRIES), rng.choice([0, 0, 1, 2])):
                    mite_hits.append({"cds": gene["name"], "entry": entry, "start": 1, "end": 100, "identity": rng.choice([65.0, 80.0, 80.0]),
                                      "bitscore": rng.choice([150.0, 200.0]), "evalue": 1e-50})
        # RREFinder on the genes of RiPP protoclusters: cutoff and minimum length are settings, hits sit at and
        # around both
        rre_hits: List[Dict[str, Any]] = []
        if any(hit["profile"] in ("LANC_like", "Lant_dehydr_N", "Lant_dehydr_C") for hit in hits) and rng.random() < 0.7:
            extra += ["--rre", "--rre-cutoff", rng.choice(["25.0", "30.0"]), "--rre-minlength", rng.choice(["50", "60"])]
            rre_hits = gene_hits([p["name"] for p in rre_profiles()], [0, 1, 2, 2], [24.0, 25.0, 30.0, 30.0, 42.0],
                                 [45, 50, 60, 75], [2, 2, 20])
        # sideloaded annotations: from the command line (a subregion around named genes, or one explicit subregion)
        sideload_cli: List[str] = []
        plain = [gene for record in records for gene in record["genes"] if len(gene["parts"]) == 1]
        if plain and rng.random() < 0.3:
            markers = rng.sample(plain, min(len(plain), rng.randint(2, 4)))
            sideload_cli += ["--sideload-by-cds", ",".join(gene["name"] for gene in markers),
                             "--sideload-size-by-cds", str(rng.choice([0, 100, 300, 20000]))]
            # lone profile hits on those genes: no rule fires, so they are reported as genes with hits outside
            # of protoclusters (inside the sideloaded subregions)
            for gene in markers:
                if rng.random() < 0.6:
                    hits.append({"cds": gene["name"], "profile": rng.choice(["PKS_KS", "Condensation", "t2ks", "LANC_like",
                                                                             "PP-binding", "hglD"]),
                                 "bitscore": 600, "evalue": 1e-30, "start": 1, "end": 60, "qstart": 1, "qend": 60})
        if plain and rng.random() < 0.15:
            record = rng.choice(records)
            own = [gene for gene in record["genes"] if len(gene["parts"]) == 1]
            if own:
                gene = rng.choice(own)["parts"][0]
                sideload_cli += ["--sideload-simple", f"{record['id']}:{max(0, gene[0] - 50)}-{min(len(record['seq']), gene[1] + 50)}"]
        # hmmsearch never reports the same domain (gene, profile, coordinates) twice; two draws of the same profile
        # pair on the same gene could otherwise produce such interchangeable duplicates
        unique_hits: List[Dict[str, Any]] = []
        for hit in hits:
            if not any(all(other[key] == hit[key] for key in ("cds", "profile", "start", "end")) for other in unique_hits):
                unique_hits.append(hit)
        hits = unique_hits
        return {"records": records, "hits": hits, "sideload_cli": sideload_cli,
                "domain_hits": {"nrpspksdomains.hmm": domain_hits, "ksdomains.hmm": subtype_hits,
                                "Pfam-A.hmm": pfam_hits, "t2pks.hmm": t2pks_hits, "all_profiles.hmm": terpene_hits,
                                "TIGRFam.hmm": tigr_hits, "smcogs.hmm": smcog_hits, "Resfams.hmm": resfam_hits,
                                "extras.hmm": extras_hits, "RREFam.hmm": rre_hits, "mite.fasta": mite_hits},
                "domain_lengths": lengths, "extra_args": extra}

    # ------------------------------------------------------------ children
    def _shutdown(self) -> None:
        for proc in self._servers.values():
            try:
                proc.stdin.close()
                proc.terminate()
            except Exception:  # pylint: disable=broad-except
                pass
        self._servers.clear()

    def _server(self, hashseed: int) -> subprocess.Popen:
        proc = self._servers.get(hashseed)
        if proc is None or proc.poll() is not None:
            env = dict(os.environ, PYTHONHASHSEED=str(hashseed), PYTHONDONTWRITEBYTECODE="1")
            proc = subprocess.Popen([sys.executable, "-m", "sim.engines.hashseed_child", "server"], cwd=VERIF, env=env,
                                    stdin=subprocess.PIPE, stdout=subprocess.PIPE, stderr=subprocess.DEVNULL, text=True)
            self._servers[hashseed] = proc
        return proc

    def _ask(self, hashseed: int, scenario: Dict[str, Any], salt: int) -> Dict[str, Any]:
        proc = self._server(hashseed)
        payload = {key: val for key, val in scenario.items() if key not in ("configs",)}
        proc.stdin.write(json.dumps({"scenario": payload, "salt": salt}) + "\n")
        proc.stdin.flush()
        line = proc.stdout.readline()
        if not line:
            raise RuntimeError(f"hash-seed child {hashseed} died")
        return json.loads(line)

    # ------------------------------------------------------------ execution (replay / shrink)
    def execute(self, scenario: Dict[str, Any], prop: str) -> RunResult:
        res = RunResult()
        configs = scenario.get("configs")
        if not configs:
            raise ValueError("scenario has no configs (hash seed, salt) to compare")
        # start all children first so that their imports overlap
        for hashseed, _ in configs:
            self._server(int(hashseed))
        answers = [self._ask(int(h), scenario, int(s)) for h, s in configs]
        self._compare(scenario, configs, [a["texts"] for a in answers], res, [a["set_order"] for a in answers])
        res["steps"] = len(configs)
        res["digest"] = digest([[name, digest(text)] for a in answers for name, text in sorted(a["texts"].items())
                                if not name.startswith("_")])
        res["sig"] = digest({k: v for k, v in scenario.items() if k != "configs"})
        res["nontrivial"] = tie_groups(scenario) > 0
        return res

    def _compare(self, scenario: Dict[str, Any], configs: List[List[int]], texts: List[Dict[str, str]],
                 res: RunResult, set_orders: Optional[List[str]] = None) -> None:
        kind = scenario["kind"]
        names = sorted({name for t in texts for name in t if not name.startswith("_")})
        for name in names:
            base = texts[0].get(name)
            for j in range(1, len(texts)):
                other = texts[j].get(name)
                if other != base:
                    diff = list(difflib.unified_diff((base or "<missing>").splitlines(),
                                                     (other or "<missing>").splitlines(),
                                                     fromfile=f"hashseed={configs[0][0]} salt={configs[0][1]}",
                                                     tofile=f"hashseed={configs[j][0]} salt={configs[j][1]}",
                                                     lineterm="", n=2))
                    res.violate(f"C17-{kind}", f"stage '{name}' of a {kind} scenario differs between "
                                f"(PYTHONHASHSEED={configs[0][0]}, salt={configs[0][1]}) and "
                                f"(PYTHONHASHSEED={configs[j][0]}, salt={configs[j][1]}):\n" + "\n".join(diff[:40]),
                                sig=f"C17-{kind}:{_stage_class(kind, name)}", configs=[configs[0], configs[j]])
                    return

    def shrink_candidates(self, scenario: Dict[str, Any]) -> Iterator[Dict[str, Any]]:
        kind = scenario["kind"]
        if kind in ("refine", "hmmer_overlap", "filter"):
            return
        if kind == "detect":
            for i in range(len(scenario["record"]["genes"])):
                cand = copy.deepcopy(scenario)
                del cand["record"]["genes"][i]
                yield cand
            return
        if kind == "candidates":
            for key in ("genes", "protos", "subs"):
                for i in range(len(scenario["record"][key])):
                    cand = copy.deepcopy(scenario)
                    del cand["record"][key][i]
                    yield cand
            for i, gene in enumerate(scenario["record"]["genes"]):
                if gene["cores"]:
                    cand = copy.deepcopy(scenario)
                    cand["record"]["genes"][i]["cores"] = []
                    yield cand
            return
        # pipeline
        if len(scenario["records"]) > 1:
            for i in range(len(scenario["records"])):
                cand = copy.deepcopy(scenario)
                del cand["records"][i]
                yield cand
        if scenario.get("extra_args"):
            cand = copy.deepcopy(scenario)
            cand["extra_args"] = []
            yield cand
        table = scenario["domain_hits"].get("nrpspksdomains.hmm", [])
        if table:
            cand = copy.deepcopy(scenario)
            cand["domain_hits"]["nrpspksdomains.hmm"] = []
            yield cand
            for i in range(len(table)):
                cand = copy.deepcopy(scenario)
                del cand["domain_hits"]["nrpspksdomains.hmm"][i]
                yield cand
        used = {hit["cds"] for hit in scenario["hits"]} | {hit["cds"] for hit in table}
        for r, record in enumerate(scenario["records"]):
            for i, gene in enumerate(record["genes"]):
                if gene["name"] not in used:
                    cand = copy.deepcopy(scenario)
                    del cand["records"][r]["genes"][i]
                    yield cand

    def ops_key(self) -> Optional[str]:
        return "hits"

    def sample_view(self, scenario: Dict[str, Any], result: RunResult) -> Any:
        text = json.dumps(scenario)
        return {"kind": scenario["kind"], "scenario_head": text[:700], "salts": scenario.get("salts", [])[:4]}

    # ------------------------------------------------------------ batch
    def custom_batch(self, prop: str, seed: int, cfg: Dict[str, Any], jobs: int) -> Dict[str, Any]:
        k = int(cfg.get("k", 8))
        runs = int(cfg["runs"])
        seeds = hash_seeds(seed, k)
        per_child = max(1, jobs // k)
        concurrent_children = max(1, min(k, jobs // per_child))
        outdir = tempfile.mkdtemp(prefix="c17_batch_", dir=os.environ.get("VERIF_SCRATCH", "/tmp"))
        child_cfg = {key: val for key, val in cfg.items() if key != "expected_probes"}
        started = time.time()
        procs: List[Any] = []
        pending = list(enumerate(seeds))
        outputs: Dict[int, str] = {}
        running: List[Any] = []
        try:
            while pending or running:
                while pending and len(running) < concurrent_children:
                    j, hashseed = pending.pop(0)
                    out_path = os.path.join(outdir, f"child_{j}.json")
                    env = dict(os.environ, PYTHONHASHSEED=str(hashseed), PYTHONDONTWRITEBYTECODE="1",
                               HASHSEED_CFG=json.dumps(child_cfg))
                    proc = subprocess.Popen([sys.executable, "-m", "sim.engines.hashseed_child", "batch", prop, str(seed),
                                             str(runs), str(per_child), str(j), out_path], cwd=VERIF, env=env,
                                            stdout=subprocess.DEVNULL, stderr=subprocess.PIPE, text=True)
                    running.append((j, proc, out_path))
                    procs.append(proc)
                time.sleep(0.2)
                for item in list(running):
                    j, proc, out_path = item
                    if proc.poll() is None:
                        if time.time() - started > float(cfg.get("deadline_s", 600)) + 600:
                            proc.kill()
                            raise RuntimeError("hash-seed child exceeded the wall-clock cap")
                        continue
                    running.remove(item)
                    if proc.returncode != 0:
                        raise RuntimeError(f"hash-seed child {j} failed: {proc.stderr.read()[-2000:]}")
                    outputs[j] = out_path
            data = []
            for j in range(k):
                with open(outputs[j], encoding="utf-8") as handle:
                    data.append(json.load(handle))
        finally:
            for proc in procs:
                if proc.poll() is None:
                    proc.kill()
            for name in os.listdir(outdir):
                os.unlink(os.path.join(outdir, name))
            os.rmdir(outdir)
        set_orders = sorted({d["set_order"] for d in data})
        merged = []
        states = set()
        for i in range(runs):
            rows = [d["runs"][i] for d in data]
            assert all(row[0] == i for row in rows)
            scenario_digests = {row[1] for row in rows}
            summary: Dict[str, Any] = {"i": i, "sig": rows[0][1], "nontrivial": True, "probes": {}, "faults": {},
                                       "digest": digest([row[3] for row in rows]), "sim_time": 0.0, "steps": k,
                                       "aborted": None, "violations": [], "other_violations": []}
            if len(scenario_digests) != 1:
                summary["aborted"] = {"op": "generate", "error": "scenario-differs-between-hash-seeds"}
                merged.append(summary)
                continue
            scenario = self.generate(run_rng(prop, seed, i), cfg, prop)
            kind = scenario["kind"]
            ties = tie_groups(scenario)
            summary["nontrivial"] = ties > 0
            summary["probes"][f"kind_{kind}"] = 1
            summary["probes"]["tie_groups"] = ties
            summary["faults"]["hash_seed_schedules"] = k
            stage_digests = [row[3] for row in rows]
            if any("exception" in d for d in stage_digests):
                summary["probes"]["stage_raised"] = 1
                if all("exception" in d for d in stage_digests) and len({d["exception"] for d in stage_digests}) == 1:
                    tb = next((row[4] for row in rows if row[4]), "")
                    summary["aborted"] = {"op": kind, "error": "stage-raised-under-every-schedule",
                                          "msg": (tb or "").strip().splitlines()[-1][:200] if tb else ""}
            names = sorted({name for d in stage_digests for name in d})
            for name in names:
                base = stage_digests[0].get(name)
                differing = [j for j in range(1, k) if stage_digests[j].get(name) != base]
                if differing:
                    j = differing[0]
                    configs = [[seeds[0], rows[0][2]], [seeds[j], rows[j][2]]]
                    scenario_out = copy.deepcopy(scenario)
                    scenario_out["configs"] = configs
                    summary["violations"].append({
                        "clause": f"C17-{kind}", "sig": f"C17-{kind}:{_stage_class(kind, name)}", "step": None,
                        "detail": f"stage '{name}' differs between schedules {configs[0]} and {configs[j if False else 1]} "
                                  f"({len(differing) + 1} of {k} schedules disagree with the first)"})
                    summary["scenario"] = scenario_out
                    break
            if kind == "pipeline":
                for probe in (rows[0][6] if len(rows[0]) > 6 else []):
                    summary["probes"][f"pipeline_{probe}"] = 1
                statuses = sorted({str(row[5]) for row in rows})
                if statuses == ["exit:0"]:
                    summary["probes"]["pipeline_completed"] = 1
                else:
                    summary["probes"]["pipeline_not_completed"] = 1
                    if not summary["aborted"] and len(statuses) == 1:
                        summary["aborted"] = {"op": "pipeline", "error": "run_antismash-failed", "msg": statuses[0][:200]}
            states.add(rows[0][1])
            if i < 3:
                summary["sample"] = self.sample_view(scenario, RunResult())
            merged.append(summary)
        self._batch_info = {"hash_seeds": seeds, "distinct_set_orders_observed": len(set_orders),
                            "schedules_per_scenario": k}
        return {"runs": merged, "states": states, "skipped": 0}

    def extra_evidence(self, prop: str, cfg: Dict[str, Any]) -> Dict[str, Any]:
        return dict(getattr(self, "_batch_info", {}))


EXPECTED_PROBES = ["kind_refine", "kind_hmmer_overlap", "kind_filter", "kind_candidates", "kind_detect", "kind_pipeline",
                   "pipeline_completed"] + [f"pipeline_{name}" for name in (
                       "multi_record_input", "origin_crossing_region", "origin_spanning_gene_with_regions",
                       "genes_with_hits_outside_protoclusters", "nrps_pks_modules", "sideloaded_areas", "cluster_hmmer_hits",
                       "full_hmmer_hits", "tigrfam_hits", "pfam2go_terms", "gene_functions_from_2_tools", "t2pks_prediction",
                       "t2pks_weights_with_3_tailoring_kinds", "terpene_domain_with_2_subtypes", "rre_hits", "tfbs_hits",
                       "tta_codons")]

ENGINE = HashSeedEngine()
