""" Command line entry point: python -m sim.cli Cxx [--tier quick|thorough] ... """

import argparse
import os
import sys
import traceback


def main() -> int:
    parser = argparse.ArgumentParser()
    parser.add_argument("prop")
    parser.add_argument("--tier", default=os.environ.get("VERIF_TIER", "quick"), choices=["quick", "thorough"])
    parser.add_argument("--seed", type=int, default=None)
    parser.add_argument("--jobs", type=int, default=int(os.environ.get("VERIF_JOBS", "16")))
    parser.add_argument("--runs", type=int, default=None)
    parser.add_argument("--deadline", type=float, default=None)
    parser.add_argument("--replay", default=None)
    parser.add_argument("--quiet", action="store_true")
    parser.add_argument("--no-evidence", action="store_true")
    parser.add_argument("--set", action="append", default=[], help="cfg override key=value (json)")
    args = parser.parse_args()

    if os.environ.get("PYTHONHASHSEED") != "0":
        env = dict(os.environ, PYTHONHASHSEED="0", PYTHONDONTWRITEBYTECODE="1")
        os.execve(sys.executable, [sys.executable, "-m", "sim.cli"] + sys.argv[1:], env)

    import atexit
    import json
    import logging
    import shutil
    import tempfile
    logging.disable(logging.CRITICAL)
    # every top-level invocation works in its own scratch root outside /repo and /verif, removed on exit
    # (the same root is inherited by all worker and child processes, so paths that end up in outputs agree)
    if "VERIF_SCRATCH" not in os.environ:
        scratch = tempfile.mkdtemp(prefix="verif_scratch_", dir=os.environ.get("TMPDIR", "/tmp"))
        os.environ["VERIF_SCRATCH"] = scratch
        # temporary files of the code under test (zip staging, TemporaryDirectory) go below it as well, so that a
        # simulated process killed by an injected fault leaves nothing behind in /tmp
        os.makedirs(os.path.join(scratch, "tmp"))
        os.environ["TMPDIR"] = os.path.join(scratch, "tmp")
        tempfile.tempdir = os.environ["TMPDIR"]
        owner = os.getpid()

        def _cleanup() -> None:
            if os.getpid() == owner:
                shutil.rmtree(scratch, ignore_errors=True)
        atexit.register(_cleanup)  # antismash logs errors on rejected operations; they are expected here
    from sim.core import runner
    from sim import engines

    try:
        engine = engines.for_property(args.prop)
        if args.replay:
            return runner.replay_file(engine, args.prop, args.replay, quiet=args.quiet)
        seed = args.seed
        if seed is None:
            seed = int(os.environ.get("VERIF_SEED", "20260926"))
        overrides = {}
        if args.runs is not None:
            overrides["runs"] = args.runs
        if args.deadline is not None:
            overrides["deadline_s"] = args.deadline
        for item in args.set:
            key, val = item.split("=", 1)
            overrides[key] = json.loads(val)
        return runner.run_check(engine, args.prop, args.tier, seed, args.jobs, overrides,
                                write_evidence=not args.no_evidence)
    except runner.HarnessError as err:
        print(f"HARNESS-ERROR: {err}", flush=True)
        return 2
    except Exception:  # pylint: disable=broad-except
        traceback.print_exc()
        print("HARNESS-ERROR: unexpected exception in the harness", flush=True)
        return 2


if __name__ == "__main__":
    sys.exit(main())
